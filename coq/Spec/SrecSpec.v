(* Spec/SrecSpec.v — Motorola S-record (SREC) format: grammar, an executable reference reader and the
   denotation of a file as a partial map address -> byte. Independent of ppci.
   Source: the published format description (record = 'S', type digit, count byte, address,
   data, checksum; all bytes as two hex digits).
     type  meaning              address bytes
     S0    header               2 (the address field is 0000)
     S1/S2/S3  data             2 / 3 / 4
     S5/S6 record count         2 / 3
     S7/S8/S9  termination      4 / 3 / 2    (S7 ends an S3 file, S8 an S2 file, S9 an S1 file)
   count    = number of bytes that follow it = address bytes + data bytes + 1 (the checksum)
   checksum = ones' complement of the low byte of the sum of count, address and data bytes. *)
From PV Require Import Lib.Py.
From Coq Require Import String Ascii.
Open Scope Z_scope.

(* ---------------- text layer: "S" <digit> <hex pairs> *)
Definition hexval (c : ascii) : option Z :=
  let n := Z.of_nat (nat_of_ascii c) in
  if (48 <=? n) && (n <=? 57) then Some (n - 48)
  else if (65 <=? n) && (n <=? 70) then Some (n - 55)
  else if (97 <=? n) && (n <=? 102) then Some (n - 87)
  else None.

Fixpoint hex_bytes (s : string) : option (list Z) :=
  match s with
  | EmptyString => Some []
  | String a (String b r) =>
      match hexval a, hexval b, hex_bytes r with
      | Some x, Some y, Some l => Some (16 * x + y :: l)
      | _, _, _ => None
      end
  | _ => None
  end.

(* a line as (type digit, bytes after the type digit) *)
Definition parse_line (s : string) : option (Z * list Z) :=
  match s with
  | String c (String d r) =>
      let t := Z.of_nat (nat_of_ascii d) - 48 in
      if (Z.of_nat (nat_of_ascii c) =? 83) && (0 <=? t) && (t <=? 9)
      then match hex_bytes r with Some bs => Some (t, bs) | None => None end
      else None
  | _ => None
  end.

(* ---------------- record layer *)
Record srec := mk_srec { s_typ : Z; s_addr : Z; s_data : list Z }.

Definition addr_len (t : Z) : option nat :=
  if t =? 0 then Some 2%nat else if t =? 1 then Some 2%nat else if t =? 2 then Some 3%nat
  else if t =? 3 then Some 4%nat else if t =? 5 then Some 2%nat else if t =? 6 then Some 3%nat
  else if t =? 7 then Some 4%nat else if t =? 8 then Some 3%nat else if t =? 9 then Some 2%nat
  else None.

(* big-endian value of a byte string *)
Definition be_value (bs : list Z) : Z := fold_left (fun a b => 256 * a + b) bs 0.

(* ones' complement of the low byte of the sum *)
Definition checksum (bs : list Z) : Z := 255 - (sumZ bs) mod 256.

(* decode one record; None when the count byte, the checksum, the length or a byte is wrong *)
Definition decode (t : Z) (bs : list Z) : option srec :=
  match addr_len t, bs with
  | Some n, count :: rest =>
      let body := removelast rest in
      if all_byte bs && (count =? len rest) && (Nat.leb (S n) (List.length rest))
         && (last rest 0 =? checksum (count :: body))
      then Some (mk_srec t (be_value (firstn n body)) (skipn n body))
      else None
  | _, _ => None
  end.

Definition read_line (s : string) : option srec :=
  match parse_line s with Some (t, bs) => decode t bs | None => None end.

Fixpoint read_file (lines : list string) : option (list srec) :=
  match lines with
  | [] => Some []
  | l :: r => match read_line l, read_file r with
              | Some x, Some xs => Some (x :: xs)
              | _, _ => None
              end
  end.

(* ---------------- file structure: S0 header first, then data records of one type T in {1,2,3},
   last the termination record of type 10 - T *)
Definition is_data (t : Z) : bool := (1 <=? t) && (t <=? 3).

Definition wf_file (rs : list srec) : bool :=
  match rs with
  | h :: rest =>
      (s_typ h =? 0) &&
      match rev rest with
      | term :: rbody =>
          let T := 10 - s_typ term in
          is_data T && forallb (fun r => s_typ r =? T) rbody
      | [] => false
      end
  | [] => false
  end.

(* ---------------- denotation: only data records contribute; a later record overrides *)
Definition rec_lookup (r : srec) (a : Z) : option Z :=
  if is_data (s_typ r) && (s_addr r <=? a) && (a <? s_addr r + len (s_data r))
  then nth_error (s_data r) (Z.to_nat (a - s_addr r)) else None.

Fixpoint denote (rs : list srec) (a : Z) : option Z :=
  match rs with
  | [] => None
  | r :: rs' => match denote rs' a with Some b => Some b | None => rec_lookup r a end
  end.

(* the memory image "bytes [code] at consecutive addresses from [base]" *)
Definition image (base : Z) (code : list Z) (a : Z) : option Z :=
  if (base <=? a) && (a <? base + len code) then nth_error code (Z.to_nat (a - base)) else None.
