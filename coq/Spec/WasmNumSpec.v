(* Spec/WasmNumSpec.v — integer numeric instructions of WebAssembly (core spec §4.3.2 "Integer
   Operations", §4.3.4 conversions), independent of ppci.

   As in the specification, an iN value is an integer 0 <= i < 2^N; [signed N] is the spec's
   signed_N interpretation and [unsigned N] its inverse.  Partial operators return [option]:
   [None] = the instruction traps.  N is a parameter (instantiated with 32 and 64). *)
From Coq Require Import ZArith Bool List.
Import ListNotations.
Open Scope Z_scope.

Definition wrap (N x : Z) : Z := x mod 2 ^ N.
(* signed_N(i) = i if i < 2^(N-1), i - 2^N otherwise *)
Definition signed (N i : Z) : Z := if i <? 2 ^ (N - 1) then i else i - 2 ^ N.
(* the iN value that represents the integer s (inverse of signed_N on [-2^(N-1), 2^(N-1))) *)
Definition unsigned (N s : Z) : Z := s mod 2 ^ N.
Definition bool_i (b : bool) : Z := if b then 1 else 0.

(* ---- arithmetic *)
Definition iadd (N a b : Z) : Z := wrap N (a + b).
Definition isub (N a b : Z) : Z := wrap N (a - b).
Definition imul (N a b : Z) : Z := wrap N (a * b).
(* Z.quot / Z.rem: truncation toward zero, remainder has the sign of the dividend *)
Definition idiv_u (N a b : Z) : option Z := if b =? 0 then None else Some (Z.quot a b).
Definition irem_u (N a b : Z) : option Z := if b =? 0 then None else Some (Z.rem a b).
Definition idiv_s (N a b : Z) : option Z :=
  let sa := signed N a in let sb := signed N b in
  if sb =? 0 then None
  else if Z.quot sa sb =? 2 ^ (N - 1) then None            (* only -2^(N-1) / -1 *)
  else Some (unsigned N (Z.quot sa sb)).
Definition irem_s (N a b : Z) : option Z :=
  let sa := signed N a in let sb := signed N b in
  if sb =? 0 then None else Some (unsigned N (Z.rem sa sb)).

(* ---- bitwise: iN values are non-negative, so Z.land/Z.lor/Z.lxor are the bitwise operations *)
Definition iand (N a b : Z) : Z := Z.land a b.
Definition ior (N a b : Z) : Z := Z.lor a b.
Definition ixor (N a b : Z) : Z := Z.lxor a b.

(* ---- shifts and rotates: the count is taken modulo N *)
Definition ishl (N a b : Z) : Z := wrap N (a * 2 ^ (b mod N)).
Definition ishr_u (N a b : Z) : Z := a / 2 ^ (b mod N).
(* shift right replicating the most significant bit = floor division of the signed value *)
Definition ishr_s (N a b : Z) : Z := unsigned N (signed N a / 2 ^ (b mod N)).
Definition irotl (N a b : Z) : Z :=
  let k := b mod N in wrap N (a * 2 ^ k) + a / 2 ^ (N - k).
Definition irotr (N a b : Z) : Z :=
  let k := b mod N in a / 2 ^ k + wrap N (a * 2 ^ (N - k)).

(* ---- bit counting, by structural recursion on the binary representation *)
Fixpoint pos_ctz (p : positive) : Z :=
  match p with xO q => 1 + pos_ctz q | _ => 0 end.
Fixpoint pos_popcnt (p : positive) : Z :=
  match p with xO q => pos_popcnt q | xI q => 1 + pos_popcnt q | xH => 1 end.
(* number of binary digits *)
Fixpoint pos_size (p : positive) : Z :=
  match p with xO q | xI q => 1 + pos_size q | xH => 1 end.
Definition iclz (N a : Z) : Z := match a with Zpos p => N - pos_size p | _ => N end.
Definition ictz (N a : Z) : Z := match a with Zpos p => pos_ctz p | _ => N end.
Definition ipopcnt (N a : Z) : Z := match a with Zpos p => pos_popcnt p | _ => 0 end.

(* ---- comparisons (result is the i32 value 1 or 0) *)
Definition ieqz (N a : Z) : Z := bool_i (a =? 0).
Definition ieq (N a b : Z) : Z := bool_i (a =? b).
Definition ine (N a b : Z) : Z := bool_i (negb (a =? b)).
Definition ilt_u (N a b : Z) : Z := bool_i (a <? b).
Definition igt_u (N a b : Z) : Z := bool_i (b <? a).
Definition ile_u (N a b : Z) : Z := bool_i (a <=? b).
Definition ige_u (N a b : Z) : Z := bool_i (b <=? a).
Definition ilt_s (N a b : Z) : Z := bool_i (signed N a <? signed N b).
Definition igt_s (N a b : Z) : Z := bool_i (signed N b <? signed N a).
Definition ile_s (N a b : Z) : Z := bool_i (signed N a <=? signed N b).
Definition ige_s (N a b : Z) : Z := bool_i (signed N b <=? signed N a).

(* ---- sign extension inside a width, conversions *)
(* iextendM_s: reinterpret the low M bits as signed, re-embed in N bits *)
Definition iextend_s (M N a : Z) : Z := unsigned N (signed M (wrap M a)).
Definition wrap_i64 (a : Z) : Z := wrap 32 a.
Definition extend_i32_s (a : Z) : Z := unsigned 64 (signed 32 a).
Definition extend_i32_u (a : Z) : Z := a.

(* ---- the instruction set as data *)
Inductive width := W32 | W64.
Definition bits (w : width) : Z := match w with W32 => 32 | W64 => 64 end.
Inductive ibin := Add | Sub | Mul | DivS | DivU | RemS | RemU | And | Or | Xor
                | Shl | ShrS | ShrU | Rotl | Rotr.
Inductive iun := Clz | Ctz | Popcnt | Ext8S | Ext16S | Ext32S.
Inductive irel := Eq | Ne | LtS | LtU | GtS | GtU | LeS | LeU | GeS | GeU.
Inductive wop :=
| Bin (w : width) (o : ibin)          (* iN.add ... iN.rotr *)
| Un (w : width) (o : iun)            (* iN.clz ... iN.extend32_s *)
| Eqz (w : width)
| Rel (w : width) (o : irel)
| WrapI64 | ExtendI32S | ExtendI32U.

(* i32.extend32_s does not exist *)
Definition valid_op (o : wop) : bool :=
  match o with Un W32 Ext32S => false | _ => true end.

Definition bin_sem (N : Z) (o : ibin) (a b : Z) : option Z :=
  match o with
  | Add => Some (iadd N a b) | Sub => Some (isub N a b) | Mul => Some (imul N a b)
  | DivS => idiv_s N a b | DivU => idiv_u N a b | RemS => irem_s N a b | RemU => irem_u N a b
  | And => Some (iand N a b) | Or => Some (ior N a b) | Xor => Some (ixor N a b)
  | Shl => Some (ishl N a b) | ShrS => Some (ishr_s N a b) | ShrU => Some (ishr_u N a b)
  | Rotl => Some (irotl N a b) | Rotr => Some (irotr N a b)
  end.
Definition un_sem (N : Z) (o : iun) (a : Z) : Z :=
  match o with
  | Clz => iclz N a | Ctz => ictz N a | Popcnt => ipopcnt N a
  | Ext8S => iextend_s 8 N a | Ext16S => iextend_s 16 N a | Ext32S => iextend_s 32 N a
  end.
Definition rel_sem (N : Z) (o : irel) (a b : Z) : Z :=
  match o with
  | Eq => ieq N a b | Ne => ine N a b
  | LtS => ilt_s N a b | LtU => ilt_u N a b | GtS => igt_s N a b | GtU => igt_u N a b
  | LeS => ile_s N a b | LeU => ile_u N a b | GeS => ige_s N a b | GeU => ige_u N a b
  end.

(* operand widths, result width *)
Definition arg_widths (o : wop) : list width :=
  match o with
  | Bin w _ | Rel w _ => [w; w]
  | Un w _ | Eqz w => [w]
  | WrapI64 => [W64] | ExtendI32S | ExtendI32U => [W32]
  end.
Definition res_width (o : wop) : width :=
  match o with
  | Bin w _ | Un w _ => w
  | Eqz _ | Rel _ _ | WrapI64 => W32
  | ExtendI32S | ExtendI32U => W64
  end.

(* semantics on iN values (unsigned representation); None = trap; operand count mismatch = None *)
Definition wop_sem (o : wop) (args : list Z) : option Z :=
  match o, args with
  | Bin w b, [x; y] => bin_sem (bits w) b x y
  | Un w u, [x] => Some (un_sem (bits w) u x)
  | Eqz w, [x] => Some (ieqz (bits w) x)
  | Rel w r, [x; y] => Some (rel_sem (bits w) r x y)
  | WrapI64, [x] => Some (wrap_i64 x)
  | ExtendI32S, [x] => Some (extend_i32_s x)
  | ExtendI32U, [x] => Some (extend_i32_u x)
  | _, _ => None
  end.

(* ppci's Python instance passes iN values as signed Python ints: the same semantics on that
   representation (used by the search and correspondence stages, and by the theorems) *)
Definition wop_sem_signed (o : wop) (args : list Z) : option Z :=
  match wop_sem o (map (fun '(w, s) => unsigned (bits w) s) (combine (arg_widths o) args)) with
  | Some r => Some (signed (bits (res_width o)) r)
  | None => None
  end.

(* ---- every integer numeric opcode (66) *)
Definition all_ibin := [Add; Sub; Mul; DivS; DivU; RemS; RemU; And; Or; Xor; Shl; ShrS; ShrU; Rotl; Rotr].
Definition all_iun := [Clz; Ctz; Popcnt; Ext8S; Ext16S; Ext32S].
Definition all_irel := [Eq; Ne; LtS; LtU; GtS; GtU; LeS; LeU; GeS; GeU].
Definition wops_of (w : width) : list wop :=
  map (Bin w) all_ibin ++ map (Un w) all_iun ++ [Eqz w] ++ map (Rel w) all_irel.
Definition all_wops : list wop :=
  filter valid_op (wops_of W32 ++ wops_of W64 ++ [WrapI64; ExtendI32S; ExtendI32U]).
