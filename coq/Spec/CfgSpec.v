(* Spec/CfgSpec.v — path-based definitions for control-flow graphs (property C25).
   Independent of ppci's data structures: a graph is a list of successor lists over the
   nodes 0 .. length g - 1; successor entries that are not nodes are not edges. *)
From Coq Require Import List Arith Bool.
Import ListNotations.

Definition graph := list (list nat).

Definition nnodes (g : graph) : nat := length g.

Definition edge (g : graph) (u v : nat) : Prop := In v (nth u g []) /\ v < length g.

(* [path g u l v]: l is the sequence of vertices of a walk from u to v, both end points included *)
Inductive path (g : graph) : nat -> list nat -> nat -> Prop :=
| path_one : forall u, path g u [u] u
| path_step : forall u w v l, edge g u w -> path g w l v -> path g u (u :: l) v.

Definition reachable (g : graph) (u v : nat) : Prop := exists l, path g u l v.

(* reachable by at least one edge (ppci's can_reach) *)
Definition reachable_plus (g : graph) (u v : nat) : Prop :=
  exists w, edge g u w /\ reachable g w v.

(* d dominates w (entry e): every path from the entry to w passes through d *)
Definition dominates (g : graph) (e d w : nat) : Prop :=
  forall l, path g e l w -> In d l.

Definition sdominates (g : graph) (e d w : nat) : Prop :=
  dominates g e d w /\ d <> w.

(* d is the immediate dominator of w: the strict dominator dominated by all strict dominators *)
Definition is_idom (g : graph) (e d w : nat) : Prop :=
  sdominates g e d w /\ forall d', sdominates g e d' w -> dominates g e d' d.

(* y is in the dominance frontier of x: x dominates a (reachable) predecessor of y but does
   not strictly dominate y *)
Definition in_df (g : graph) (e x y : nat) : Prop :=
  (exists p, reachable g e p /\ edge g p y /\ dominates g e x p) /\ ~ sdominates g e x y.

(* d post-dominates w (exit x): every path from w to the exit passes through d *)
Definition postdominates (g : graph) (x d w : nat) : Prop :=
  forall l, path g w l x -> In d l.

Definition spostdominates (g : graph) (x d w : nat) : Prop :=
  postdominates g x d w /\ d <> w.

Definition is_ipdom (g : graph) (x d w : nat) : Prop :=
  spostdominates g x d w /\ forall d', spostdominates g x d' w -> postdominates g x d' d.

(* the reversed graph; post-dominance is dominance in it (lemma postdominates_rev in Proofs) *)
Definition rev_graph (g : graph) : graph :=
  map (fun v => filter (fun u => existsb (Nat.eqb v) (nth u g [])) (seq 0 (length g)))
      (seq 0 (length g)).

(* ---- trees given by a parent map (None = no parent) *)
Definition pmap := list (option nat).
Definition pget (t : pmap) (w : nat) : option nat := nth w t None.

(* [anc t a w]: a is an ancestor-or-self of w in t *)
Inductive anc (t : pmap) : nat -> nat -> Prop :=
| anc_refl : forall a, anc t a a
| anc_up : forall a w p, pget t w = Some p -> anc t a p -> anc t a w.

(* ---- rose trees with node labels (shape of ppci's DomTreeNode objects) *)
Inductive dtree := DNode : nat -> list dtree -> dtree.

Fixpoint labels (tr : dtree) : list nat :=
  match tr with DNode x cs => x :: flat_map labels cs end.

(* [tanc tr b a]: the node labelled b is an ancestor-or-self of the node labelled a in tr *)
Inductive tanc : dtree -> nat -> nat -> Prop :=
| tanc_root : forall x cs a, In a (labels (DNode x cs)) -> tanc (DNode x cs) x a
| tanc_child : forall x cs c b a, In c cs -> tanc c b a -> tanc (DNode x cs) b a.
