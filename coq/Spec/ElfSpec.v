(* Spec/ElfSpec.v — an ELF reader written from the System V gABI (chapters "ELF Header",
   "Sections", "String Table", "Symbol Table", "Relocation", "Program Header"), for ELF32 and
   ELF64 and both data encodings.  It knows nothing about ppci: no ppci structure, names or
   constants are used.  The file is a [list Z] of bytes.  [read] either rejects ([None]) or
   returns everything an ELF consumer sees: the ELF header, the program headers, every section
   (header, name, contents), every symbol table (symbols with their names and the index of the
   first non-local symbol) and every RELA table (entries split into symbol index and type).

   Acceptance checks (all from the gABI text):
   magic, EI_CLASS in {1,2}, EI_DATA in {1,2}, EI_VERSION = e_version = 1, e_ehsize, e_phentsize,
   e_shentsize equal the structure sizes of the class, both tables inside the file, section 0 is
   the null section, e_shstrndx names a SHT_STRTAB section, every section name is a NUL-terminated
   string inside that table, the contents of every section except SHT_NOBITS/SHT_NULL lie inside
   the file, a symbol table has sh_entsize = the symbol size, a size that is a multiple of it,
   sh_link naming a SHT_STRTAB, entry 0 all zero, all STB_LOCAL symbols before all others and
   sh_info = index of the first non-local one, st_shndx either < e_shnum or reserved (>= 0xff00);
   a RELA table has sh_entsize = the entry size, sh_link naming a SHT_SYMTAB, sh_info < e_shnum
   and every r_sym inside that symbol table; a PT_LOAD segment has p_filesz <= p_memsz and its
   file range inside the file. *)
From Coq Require Import ZArith List Bool.
Import ListNotations.
Open Scope Z_scope.

Definition zlen {A} (l : list A) : Z := Z.of_nat (length l).

Definition obind {A B} (o : option A) (f : A -> option B) : option B :=
  match o with Some a => f a | None => None end.
Notation "x <-- e ;; k" := (obind e (fun x => k)) (at level 61, e at next level, right associativity).
Definition ocheck {A} (c : bool) (k : option A) : option A := if c then k else None.

Fixpoint omap {A B} (f : A -> option B) (l : list A) : option (list B) :=
  match l with
  | [] => Some []
  | a :: r => b <-- f a ;; bs <-- omap f r ;; Some (b :: bs)
  end.

(* ---- bytes ---- *)
Definition slice (bs : list Z) (off n : Z) : option (list Z) :=
  if (0 <=? off) && (0 <=? n) && (off + n <=? zlen bs)
  then Some (firstn (Z.to_nat n) (skipn (Z.to_nat off) bs)) else None.

Definition byte_at (bs : list Z) (off : Z) : option Z :=
  if off <? 0 then None else nth_error bs (Z.to_nat off).

Fixpoint le_val (l : list Z) : Z :=
  match l with [] => 0 | b :: r => b + 256 * le_val r end.
(* data encoding: ELFDATA2LSB = least significant byte first, ELFDATA2MSB = most significant first *)
Definition uint (be : bool) (l : list Z) : Z := le_val (if be then rev l else l).
Definition sint (be : bool) (l : list Z) : Z :=
  let u := uint be l in
  let w := 8 * zlen l in
  if u <? 2 ^ (w - 1) then u else u - 2 ^ w.

(* field of a structure: size in bytes, signed? *)
Inductive fty := FU (n : nat) | FS (n : nat).
Definition fsize (f : fty) : nat := match f with FU n => n | FS n => n end.
Definition fdec (be : bool) (f : fty) (l : list Z) : Z :=
  match f with FU _ => uint be l | FS _ => sint be l end.
Fixpoint lsize (L : list fty) : nat := match L with [] => O | f :: r => (fsize f + lsize r)%nat end.

Fixpoint decode_fields (be : bool) (L : list fty) (bs : list Z) : list Z :=
  match L with
  | [] => []
  | f :: r => fdec be f (firstn (fsize f) bs) :: decode_fields be r (skipn (fsize f) bs)
  end.

Definition read_struct (be : bool) (L : list fty) (bs : list Z) (off : Z) : option (list Z) :=
  d <-- slice bs off (Z.of_nat (lsize L)) ;; Some (decode_fields be L d).

Fixpoint read_table_n (be : bool) (L : list fty) (bs : list Z) (off : Z) (n : nat)
  : option (list (list Z)) :=
  match n with
  | O => Some []
  | S n' => r <-- read_struct be L bs off ;;
            rs <-- read_table_n be L bs (off + Z.of_nat (lsize L)) n' ;; Some (r :: rs)
  end.
Definition read_table be L bs off (n : Z) := if n <? 0 then None else read_table_n be L bs off (Z.to_nat n).

(* ---- gABI structure layouts (c64 = ELFCLASS64) ---- *)
(* Elf32_Half/Elf64_Half 2, Word/Sword 4, Elf32_Addr/Off 4, Elf64_Addr/Off/Xword/Sxword 8 *)
Definition A (c64 : bool) : fty := if c64 then FU 8 else FU 4.
Definition ehdr_layout (c64 : bool) : list fty :=   (* after the 16 bytes of e_ident *)
  [FU 2; FU 2; FU 4; A c64; A c64; A c64; FU 4; FU 2; FU 2; FU 2; FU 2; FU 2; FU 2].
Definition phdr_layout (c64 : bool) : list fty :=
  if c64 then [FU 4; FU 4; FU 8; FU 8; FU 8; FU 8; FU 8; FU 8]     (* type flags offset vaddr paddr filesz memsz align *)
  else [FU 4; FU 4; FU 4; FU 4; FU 4; FU 4; FU 4; FU 4].           (* type offset vaddr paddr filesz memsz flags align *)
Definition shdr_layout (c64 : bool) : list fty :=
  [FU 4; FU 4; A c64; A c64; A c64; A c64; FU 4; FU 4; A c64; A c64].
Definition sym_layout (c64 : bool) : list fty :=
  if c64 then [FU 4; FU 1; FU 1; FU 2; FU 8; FU 8]               (* name info other shndx value size *)
  else [FU 4; FU 4; FU 4; FU 1; FU 1; FU 2].                     (* name value size info other shndx *)
Definition rela_layout (c64 : bool) : list fty :=
  if c64 then [FU 8; FU 8; FS 8] else [FU 4; FU 4; FS 4].

Record ehdr := { e_class64 : bool; e_big : bool; e_type : Z; e_machine : Z; e_version : Z; e_entry : Z;
                 e_phoff : Z; e_shoff : Z; e_flags : Z; e_ehsize : Z; e_phentsize : Z; e_phnum : Z;
                 e_shentsize : Z; e_shnum : Z; e_shstrndx : Z }.
Record phdr := { p_type : Z; p_flags : Z; p_offset : Z; p_vaddr : Z; p_paddr : Z; p_filesz : Z;
                 p_memsz : Z; p_align : Z }.
Record shdr := { sh_name : Z; sh_type : Z; sh_flags : Z; sh_addr : Z; sh_offset : Z; sh_size : Z;
                 sh_link : Z; sh_info : Z; sh_addralign : Z; sh_entsize : Z }.
Record sym := { st_name : Z; st_info : Z; st_other : Z; st_shndx : Z; st_value : Z; st_size : Z }.
Record rela := { r_offset : Z; r_sym : Z; r_type : Z; r_addend : Z }.

Definition st_bind (s : sym) : Z := st_info s / 16.
Definition st_type (s : sym) : Z := st_info s mod 16.

Definition mk_ehdr (c64 be : bool) (v : list Z) : option ehdr :=
  match v with
  | [t; m; ver; en; pho; sho; fl; ehs; phes; phn; shes; shn; shstr] =>
      Some {| e_class64 := c64; e_big := be; e_type := t; e_machine := m; e_version := ver; e_entry := en;
              e_phoff := pho; e_shoff := sho; e_flags := fl; e_ehsize := ehs; e_phentsize := phes;
              e_phnum := phn; e_shentsize := shes; e_shnum := shn; e_shstrndx := shstr |}
  | _ => None
  end.
Definition mk_phdr (c64 : bool) (v : list Z) : option phdr :=
  match c64, v with
  | true, [t; fl; o; va; pa; fs; ms; al] | false, [t; o; va; pa; fs; ms; fl; al] =>
      Some {| p_type := t; p_flags := fl; p_offset := o; p_vaddr := va; p_paddr := pa; p_filesz := fs;
              p_memsz := ms; p_align := al |}
  | _, _ => None
  end.
Definition mk_shdr (v : list Z) : option shdr :=
  match v with
  | [n; t; fl; a; o; s; l; i; al; es] =>
      Some {| sh_name := n; sh_type := t; sh_flags := fl; sh_addr := a; sh_offset := o; sh_size := s;
              sh_link := l; sh_info := i; sh_addralign := al; sh_entsize := es |}
  | _ => None
  end.
Definition mk_sym (c64 : bool) (v : list Z) : option sym :=
  match c64, v with
  | true, [n; i; o; x; va; s] | false, [n; va; s; i; o; x] =>
      Some {| st_name := n; st_info := i; st_other := o; st_shndx := x; st_value := va; st_size := s |}
  | _, _ => None
  end.
(* ELF32_R_SYM(i) = i >> 8, ELF32_R_TYPE(i) = i & 0xff; ELF64_R_SYM(i) = i >> 32, ELF64_R_TYPE(i) = i & 0xffffffff *)
Definition mk_rela (c64 : bool) (v : list Z) : option rela :=
  match v with
  | [o; i; a] => let k := if c64 then 2 ^ 32 else 2 ^ 8 in
                 Some {| r_offset := o; r_sym := i / k; r_type := i mod k; r_addend := a |}
  | _ => None
  end.

(* ---- string tables ---- *)
Fixpoint cstr (l : list Z) : option (list Z) :=      (* bytes up to, not including, the first NUL *)
  match l with
  | [] => None
  | b :: r => if b =? 0 then Some [] else s <-- cstr r ;; Some (b :: s)
  end.
Definition strtab_get (tab : list Z) (idx : Z) : option (list Z) :=
  if (0 <=? idx) && (idx <? zlen tab) then cstr (skipn (Z.to_nat idx) tab) else None.

Definition nthz {A} (l : list A) (i : Z) : option A :=
  if i <? 0 then None else nth_error l (Z.to_nat i).

(* section types / constants of the gABI *)
Definition SHT_NULL := 0.  Definition SHT_SYMTAB := 2.  Definition SHT_STRTAB := 3.
Definition SHT_RELA := 4.  Definition SHT_NOBITS := 8.  Definition PT_LOAD := 1.
Definition SHN_LORESERVE := 65280.   (* 0xff00 *)
Definition STB_LOCAL := 0.

Record section := { s_hdr : shdr; s_name : list Z; s_data : list Z }.
Record symtab := { t_index : Z;             (* index of the SHT_SYMTAB section header *)
                   t_first_global : Z;      (* sh_info *)
                   t_syms : list (sym * list Z) }.   (* entry, name *)
Record relatab := { rt_index : Z; rt_target : Z (* sh_info: section the relocations apply to *);
                    rt_symtab : Z (* sh_link *); rt_entries : list rela }.
Record parsed := { f_ehdr : ehdr; f_phdrs : list phdr; f_sections : list section;
                   f_symtabs : list symtab; f_relatabs : list relatab }.

Definition sec_contents (bs : list Z) (h : shdr) : option (list Z) :=
  if (sh_type h =? SHT_NOBITS) || (sh_type h =? SHT_NULL) then Some []
  else slice bs (sh_offset h) (sh_size h).

Definition strtab_of (bs : list Z) (shdrs : list shdr) (idx : Z) : option (list Z) :=
  h <-- nthz shdrs idx ;;
  ocheck (sh_type h =? SHT_STRTAB) (slice bs (sh_offset h) (sh_size h)).

Definition is_null_shdr (h : shdr) : bool :=
  (sh_name h =? 0) && (sh_type h =? 0) && (sh_flags h =? 0) && (sh_addr h =? 0) && (sh_offset h =? 0)
  && (sh_size h =? 0) && (sh_link h =? 0) && (sh_info h =? 0) && (sh_addralign h =? 0) && (sh_entsize h =? 0).
Definition is_null_sym (s : sym) : bool :=
  (st_name s =? 0) && (st_info s =? 0) && (st_other s =? 0) && (st_shndx s =? 0) && (st_value s =? 0)
  && (st_size s =? 0).

Definition locals_first (info : Z) (syms : list sym) : bool :=
  (0 <=? info) && (info <=? zlen syms)
  && forallb (fun s => st_bind s =? STB_LOCAL) (firstn (Z.to_nat info) syms)
  && forallb (fun s => negb (st_bind s =? STB_LOCAL)) (skipn (Z.to_nat info) syms).

Definition read_symtab (c64 be : bool) (bs : list Z) (shdrs : list shdr) (idx : Z) (h : shdr)
  : option symtab :=
  let esz := Z.of_nat (lsize (sym_layout c64)) in
  ocheck ((sh_entsize h =? esz) && (sh_size h mod esz =? 0))
  (names <-- strtab_of bs shdrs (sh_link h) ;;
   raw <-- read_table be (sym_layout c64) bs (sh_offset h) (sh_size h / esz) ;;
   syms <-- omap (mk_sym c64) raw ;;
   ocheck (match syms with [] => true | s0 :: _ => is_null_sym s0 end)
   (ocheck (locals_first (sh_info h) syms)
   (ocheck (forallb (fun s => (st_shndx s <? zlen shdrs) || (SHN_LORESERVE <=? st_shndx s)) syms)
   (named <-- omap (fun s => n <-- strtab_get names (st_name s) ;; Some (s, n)) syms ;;
    Some {| t_index := idx; t_first_global := sh_info h; t_syms := named |})))).

Definition read_relatab (c64 be : bool) (bs : list Z) (shdrs : list shdr) (idx : Z) (h : shdr)
  : option relatab :=
  let esz := Z.of_nat (lsize (rela_layout c64)) in
  let ssz := Z.of_nat (lsize (sym_layout c64)) in
  ocheck ((sh_entsize h =? esz) && (sh_size h mod esz =? 0))
  (st <-- nthz shdrs (sh_link h) ;;
   ocheck ((sh_type st =? SHT_SYMTAB) && (0 <=? sh_info h) && (sh_info h <? zlen shdrs))
   (raw <-- read_table be (rela_layout c64) bs (sh_offset h) (sh_size h / esz) ;;
    ents <-- omap (mk_rela c64) raw ;;
    ocheck (forallb (fun r => r_sym r <? sh_size st / ssz) ents)
    (Some {| rt_index := idx; rt_target := sh_info h; rt_symtab := sh_link h; rt_entries := ents |}))).

Fixpoint indexed {A} (i : Z) (l : list A) : list (Z * A) :=
  match l with [] => [] | a :: r => (i, a) :: indexed (i + 1) r end.

Definition segment_ok (bs : list Z) (p : phdr) : bool :=
  negb (p_type p =? PT_LOAD)
  || ((p_filesz p <=? p_memsz p)
      && match slice bs (p_offset p) (p_filesz p) with Some _ => true | None => false end).

Definition magic : list Z := [127; 69; 76; 70].   (* 0x7f 'E' 'L' 'F' *)

(* gABI, program header: "loadable process segments must have congruent values for p_vaddr and
   p_offset, modulo the page size" (p_align) *)
Definition segment_congruent (p : phdr) : bool :=
  negb (p_type p =? PT_LOAD) || (p_align p <=? 1) || ((p_offset p - p_vaddr p) mod p_align p =? 0).

(* first stage: ELF header, program headers, section headers, section names and contents *)
Record core := { c_ehdr : ehdr; c_phdrs : list phdr; c_shdrs : list shdr; c_sections : list section }.

Definition read_core (bs : list Z) : option core :=
  id <-- slice bs 0 16 ;;
  ocheck (match id with
          | m0 :: m1 :: m2 :: m3 :: cls :: dat :: ver :: _ =>
              (m0 =? 127) && (m1 =? 69) && (m2 =? 76) && (m3 =? 70)
              && ((cls =? 1) || (cls =? 2)) && ((dat =? 1) || (dat =? 2)) && (ver =? 1)
          | _ => false end)
  (let c64 := match nth_error id 4 with Some 2 => true | _ => false end in
   let be := match nth_error id 5 with Some 2 => true | _ => false end in
   raw <-- read_struct be (ehdr_layout c64) bs 16 ;;
   eh <-- mk_ehdr c64 be raw ;;
   ocheck ((e_version eh =? 1) && (e_ehsize eh =? 16 + Z.of_nat (lsize (ehdr_layout c64))))
   (phraw <-- (if e_phnum eh =? 0 then Some []
               else ocheck (e_phentsize eh =? Z.of_nat (lsize (phdr_layout c64)))
                           (read_table be (phdr_layout c64) bs (e_phoff eh) (e_phnum eh))) ;;
    phdrs <-- omap (mk_phdr c64) phraw ;;
    shraw <-- (if e_shnum eh =? 0 then Some []
               else ocheck (e_shentsize eh =? Z.of_nat (lsize (shdr_layout c64)))
                           (read_table be (shdr_layout c64) bs (e_shoff eh) (e_shnum eh))) ;;
    shdrs <-- omap mk_shdr shraw ;;
    ocheck (match shdrs with [] => true | h0 :: _ => is_null_shdr h0 end)
    (ocheck (forallb (segment_ok bs) phdrs)
    (shstr <-- (if e_shnum eh =? 0 then Some [] else strtab_of bs shdrs (e_shstrndx eh)) ;;
     secs <-- omap (fun h =>
                      n <-- (if sh_type h =? SHT_NULL then Some [] else strtab_get shstr (sh_name h)) ;;
                      d <-- sec_contents bs h ;;
                      Some {| s_hdr := h; s_name := n; s_data := d |}) shdrs ;;
     Some {| c_ehdr := eh; c_phdrs := phdrs; c_shdrs := shdrs; c_sections := secs |})))).

(* second stage: symbol tables and RELA tables *)
Definition read (bs : list Z) : option parsed :=
  c <-- read_core bs ;;
  let eh := c_ehdr c in let shdrs := c_shdrs c in
  let c64 := e_class64 eh in let be := e_big eh in
  symtabs <-- omap (fun ih => read_symtab c64 be bs shdrs (fst ih) (snd ih))
                   (filter (fun ih => sh_type (snd ih) =? SHT_SYMTAB) (indexed 0 shdrs)) ;;
  relatabs <-- omap (fun ih => read_relatab c64 be bs shdrs (fst ih) (snd ih))
                    (filter (fun ih => sh_type (snd ih) =? SHT_RELA) (indexed 0 shdrs)) ;;
  Some {| f_ehdr := eh; f_phdrs := c_phdrs c; f_sections := c_sections c; f_symtabs := symtabs;
          f_relatabs := relatabs |}.

(* what a loader maps at virtual address [va] from segment [p] (file-backed part) *)
Definition in_segment (p : phdr) (va : Z) : Prop := p_vaddr p <= va < p_vaddr p + p_filesz p.
Definition segment_byte (bs : list Z) (p : phdr) (va : Z) : option Z :=
  byte_at bs (p_offset p + (va - p_vaddr p)).
