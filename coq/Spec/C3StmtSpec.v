(* Spec/C3StmtSpec.v -- big-step semantics of C3 statements over int/byte/bool variables
   (property C37).  Variables are numbered slots of an environment [list Z]; every slot holds a
   value in the range of its declared type (types are carried by the syntax: [EVar t n],
   [SAssign x t e]).  Relational: [cexec w rt s env out] holds when executing s from env
   terminates with outcome out; undefined expression values (division by zero, ...) and
   non-termination have no derivation.  Independent of ppci: no IR, no blocks.
   * assignment / return convert the value to the type of the target: same type, byte -> int
     (value kept), int -> byte (implicit, modulo 256: what the C3 type checker accepts today);
   * x o= e (o one of + - * & |): e converted to the type of x, then x := x o e in that type;
   * if / while / for(init; cond; step) as in C (C3 has no break/continue statement);
   * switch (e) { case z: s ... default: s }: e is evaluated once; the first case whose label
     equals the value runs, else default; no fall-through. *)
From Coq Require Import ZArith List Bool.
From PV Require Import Spec.C3Spec.
Import ListNotations.
Open Scope Z_scope.

Inductive cstmt :=
  | SSkip
  | SAssign (x : nat) (t : cty) (e : cexpr)
  | SSeq (a b : cstmt)
  | SIf (c : cexpr) (a b : cstmt)
  | SWhile (c : cexpr) (b : cstmt)
  | SFor (init : cstmt) (c : cexpr) (step body : cstmt)
  | SSwitch (e : cexpr) (cases : list (Z * cstmt)) (dflt : cstmt)
  | SRet (e : cexpr)
  | SAssignOp (x : nat) (t : cty) (o : cbin) (e : cexpr).      (* x o= e, for o in + - * & | *)

Inductive cout := ONormal (env : list Z) | OReturn (v : Z).

Definition conv (w : Z) (from to : cty) (v : Z) : option Z :=
  if cty_eqb from to then Some v
  else if numeric from && numeric to then Some (normt w to v) else None.

Fixpoint set_var (x : nat) (v : Z) (env : list Z) : option (list Z) :=
  match x, env with
  | O, _ :: r => Some (v :: r)
  | S x', y :: r => match set_var x' v r with Some r' => Some (y :: r') | None => None end
  | _, [] => None
  end.

Fixpoint select (v : Z) (cases : list (Z * cstmt)) (dflt : cstmt) : cstmt :=
  match cases with
  | [] => dflt
  | (z, s) :: r => if v =? z then s else select v r dflt
  end.

(* w = bits of int, rt = return type of the function *)
Inductive cexec (w : Z) (rt : cty) : cstmt -> list Z -> cout -> Prop :=
  | X_skip env : cexec w rt SSkip env (ONormal env)
  | X_assign env x t e te v v' env' :
      typeof e = Some te -> eval w env e = Some v -> conv w te t v = Some v' ->
      set_var x v' env = Some env' -> cexec w rt (SAssign x t e) env (ONormal env')
  | X_seq_n env a b e1 o :
      cexec w rt a env (ONormal e1) -> cexec w rt b e1 o -> cexec w rt (SSeq a b) env o
  | X_seq_r env a b v :
      cexec w rt a env (OReturn v) -> cexec w rt (SSeq a b) env (OReturn v)
  | X_if env c a b x o :
      typeof c = Some CBool -> eval w env c = Some x ->
      cexec w rt (if x =? 1 then a else b) env o -> cexec w rt (SIf c a b) env o
  | X_while_f env c b :
      typeof c = Some CBool -> eval w env c = Some 0 -> cexec w rt (SWhile c b) env (ONormal env)
  | X_while_t env c b e1 o :
      typeof c = Some CBool -> eval w env c = Some 1 ->
      cexec w rt b env (ONormal e1) -> cexec w rt (SWhile c b) e1 o ->
      cexec w rt (SWhile c b) env o
  | X_while_r env c b v :
      typeof c = Some CBool -> eval w env c = Some 1 ->
      cexec w rt b env (OReturn v) -> cexec w rt (SWhile c b) env (OReturn v)
  | X_for env init c step body o :
      cexec w rt (SSeq init (SWhile c (SSeq body step))) env o ->
      cexec w rt (SFor init c step body) env o
  | X_switch env e cases dflt v o :
      typeof e = Some CInt -> eval w env e = Some v ->
      Forall (fun zs => in_range w CInt (fst zs) = true) cases ->      (* labels are int constants *)
      cexec w rt (select v cases dflt) env o -> cexec w rt (SSwitch e cases dflt) env o
  | X_ret env e te v v' :
      typeof e = Some te -> eval w env e = Some v -> conv w te rt v = Some v' ->
      cexec w rt (SRet e) env (OReturn v')
  (* x o= e : e is converted to the type of x, the operation is done in that type *)
  | X_assign_op env x t o e te v v' xv r env' :
      numeric t = true -> typeof e = Some te -> eval w env e = Some v -> conv w te t v = Some v' ->
      nth_error env x = Some xv -> arith (bits_of w t) (signed_of t) o xv v' = Some r ->
      set_var x r env = Some env' -> cexec w rt (SAssignOp x t o e) env (ONormal env').
