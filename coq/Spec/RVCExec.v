(* Spec/RVCExec.v — execution semantics of the RV32C compressed instructions, by expansion to the base
   instruction the ISA manual defines for each of them (unprivileged spec, chapter "C" extension, the
   "expands to" sentences), over the decoded form of Spec/RVCDecode.v.  A compressed instruction is 2 bytes:
   the sequential next pc and the link value of c.jal / c.jalr are pc + 2.  c.ebreak is not modelled.
   Definitions only; tools/rv32_py.py (expand16, exec1 with ilen = 2) is the Python twin. *)
From Coq Require Import ZArith List String Bool.
From PV Require Import Spec.RV32Decode Spec.RVCDecode Spec.RV32Exec.
Import ListNotations.
Open Scope Z_scope.
Local Open Scope string_scope.

Definition expand16 (d : string * list Z) : option rvinstr :=
  let mn := fst d in
  let is x := String.eqb mn x in
  match snd d with
  | [a] =>
      if is "c.jal" then Some (RJal 1 a) else if is "c.j" then Some (RJal 0 a)
      else if is "c.addi16sp" then Some (ROpImm IADDI 2 2 a)
      else if is "c.jr" then Some (RJalr 0 a 0) else if is "c.jalr" then Some (RJalr 1 a 0)
      else None
  | [a; b] =>
      if is "c.addi4spn" then Some (ROpImm IADDI a 2 b)
      else if is "c.li" then Some (ROpImm IADDI a 0 b)
      else if is "c.lui" then Some (RLui a (sext 6 b mod 1048576))
      else if is "c.sub" then Some (ROp RSUB a a b) else if is "c.xor" then Some (ROp RXOR a a b)
      else if is "c.or" then Some (ROp ROR a a b) else if is "c.and" then Some (ROp RAND a a b)
      else if is "c.beqz" then Some (RBranch BEQ a 0 b) else if is "c.bnez" then Some (RBranch BNE a 0 b)
      else if is "c.lwsp" then Some (RLoad LW a b 2) else if is "c.swsp" then Some (RStore SW a b 2)
      else if is "c.mv" then Some (ROp RADD a 0 b) else if is "c.add" then Some (ROp RADD a a b)
      else None
  | [a; b; c] =>
      if is "c.lw" then Some (RLoad LW a b c) else if is "c.sw" then Some (RStore SW a b c)
      else if is "c.addi" then Some (ROpImm IADDI a b c)
      else if is "c.srli" then Some (ROpImm ISRLI a b c) else if is "c.srai" then Some (ROpImm ISRAI a b c)
      else if is "c.andi" then Some (ROpImm IANDI a b c) else if is "c.slli" then Some (ROpImm ISLLI a b c)
      else None
  | _ => None
  end.

(* the expanded instruction executed as a 2-byte instruction *)
Definition exec_len2 (i : rvinstr) (s : state) : state :=
  let next := getpc s + 2 in
  match i with
  | RJal rd off => setpc (setreg s rd next) (getpc s + off)
  | RJalr rd rs1 imm => let t := u32 (getreg s rs1 + imm) in setpc (setreg s rd next) (t - t mod 2)
  | RBranch c rs1 rs2 off =>
      if branch_taken c (getreg s rs1) (getreg s rs2) then setpc s (getpc s + off) else setpc s next
  | _ => setpc (exec i s) next
  end.

Definition exec16 (bytes : list Z) (s : state) : option state :=
  match decode16 bytes with
  | Some d => match expand16 d with Some i => Some (exec_len2 i s) | None => None end
  | None => None
  end.
