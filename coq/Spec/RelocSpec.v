(* Spec/RelocSpec.v — what an ISA-conforming decoder reads from a relocated field (C11, C13).
   Written from the ISA manuals (RISC-V unprivileged spec 2.2 ch. 2.3 / 12 "RVC", ARM ARM A8.8.18 /
   A8.8.25 / A6.7, Intel SDM JMP/CALL rel), not from ppci.  No ppci structure here.
   A field of an instruction is read from the little-endian word of the instruction bytes. *)
From Coq Require Import ZArith List.
Import ListNotations.
Open Scope Z_scope.

(* bits [a, a+n) of w *)
Definition bits (w a n : Z) : Z := (w / 2 ^ a) mod 2 ^ n.
(* two's-complement reading of the low n bits *)
Definition sext (n x : Z) : Z := (x + 2 ^ (n - 1)) mod 2 ^ n - 2 ^ (n - 1).
(* little-endian word of a byte list *)
Fixpoint le_word (data : list Z) : Z :=
  match data with [] => 0 | d :: r => d + 256 * le_word r end.

(* a signed n-bit quantity *)
Definition fits_signed (n x : Z) : Prop := - 2 ^ (n - 1) <= x < 2 ^ (n - 1).

(* ---------------- RISC-V (RV32I base formats) ---------------- *)
(* B-type: imm[12|10:5] at 31:25, imm[4:1|11] at 11:7 *)
Definition rv_b_imm (w : Z) : Z :=
  sext 13 (bits w 8 4 * 2 + bits w 25 6 * 32 + bits w 7 1 * 2048 + bits w 31 1 * 4096).
(* J-type: imm[20|10:1|11|19:12] at 31:12 *)
Definition rv_j_imm (w : Z) : Z :=
  sext 21 (bits w 21 10 * 2 + bits w 20 1 * 2048 + bits w 12 8 * 4096 + bits w 31 1 * 1048576).
(* U-type: imm[31:12] at 31:12 (value placed in the upper 20 bits of a 32-bit register) *)
Definition rv_u_imm (w : Z) : Z := sext 32 (bits w 12 20 * 4096).
(* I-type: imm[11:0] at 31:20, sign extended *)
Definition rv_i_imm (w : Z) : Z := sext 12 (bits w 20 12).
(* rd of U/J/I/R formats *)
Definition rv_rd (w : Z) : Z := bits w 7 5.

(* branch / jal at address P go to P + imm *)
Definition rv_branch_target (w P : Z) : Z := P + rv_b_imm w.
Definition rv_jal_target (w P : Z) : Z := P + rv_j_imm w.
(* lui rd, hi ; addi rd, rd, lo   computes, in a 32-bit register: *)
Definition rv_lui_addi (whi wlo : Z) : Z := (rv_u_imm whi + rv_i_imm wlo) mod 2 ^ 32.
(* auipc rd, hi (at address P) ; addi rd, rd, lo *)
Definition rv_auipc_addi (whi wlo P : Z) : Z := (P + rv_u_imm whi + rv_i_imm wlo) mod 2 ^ 32.

(* RVC CJ format (c.j, c.jal): offset[11|4|9:8|10|6|7|3:1|5] at 12:2 *)
Definition rvc_j_imm (w : Z) : Z :=
  sext 12 (bits w 3 3 * 2 + bits w 11 1 * 16 + bits w 2 1 * 32 + bits w 7 1 * 64 + bits w 6 1 * 128
           + bits w 9 2 * 256 + bits w 8 1 * 1024 + bits w 12 1 * 2048).
(* RVC CB format (c.beqz, c.bnez): offset[8|4:3] at 12:10, offset[7:6|2:1|5] at 6:2 *)
Definition rvc_b_imm (w : Z) : Z :=
  sext 9 (bits w 3 2 * 2 + bits w 10 2 * 8 + bits w 2 1 * 32 + bits w 5 2 * 64 + bits w 12 1 * 256).
Definition rvc_j_target (w P : Z) : Z := P + rvc_j_imm w.
Definition rvc_b_target (w P : Z) : Z := P + rvc_b_imm w.

(* what a jump instruction does, as far as control transfer and linking are concerned:
   (target, link register, link value).  jal rd: x[rd] := pc + 4 (rd = 0: no link).
   c.j: no link; c.jal: x[1] := pc + 2. *)
Inductive jump_sem := JumpSem (target : Z) (link_reg : Z) (return_addr : Z).
Definition sem_jal (w P : Z) : jump_sem := JumpSem (rv_jal_target w P) (rv_rd w) (P + 4).
Definition sem_cj (w P : Z) : jump_sem := JumpSem (rvc_j_target w P) 0 (P + 2).
Definition sem_cjal (w P : Z) : jump_sem := JumpSem (rvc_j_target w P) 1 (P + 2).
(* opcode tests *)
Definition is_jal (w : Z) : bool := bits w 0 7 =? 111.               (* 1101111 *)
Definition is_cj (w : Z) : bool := (bits w 0 2 =? 1) && (bits w 13 3 =? 5).
Definition is_cjal (w : Z) : bool := (bits w 0 2 =? 1) && (bits w 13 3 =? 1).
(* two jumps are equivalent for the program when they go to the same place and link the same
   register with the address of the instruction that follows them (the follow-up instruction moves
   with the jump, so return addresses are compared as "next instruction"); a link to x0 is no link *)
Definition jump_equiv (size1 size2 : Z) (P1 P2 : Z) (j1 j2 : jump_sem) (same_target : Z -> Z -> Prop) : Prop :=
  let 'JumpSem t1 r1 ra1 := j1 in
  let 'JumpSem t2 r2 ra2 := j2 in
  same_target t1 t2 /\ r1 = r2 /\ (r1 <> 0 -> ra1 = P1 + size1 /\ ra2 = P2 + size2).

(* ---------------- ARM (A32) ---------------- *)
(* B/BL: imm24 at 23:0; target = PC + 8 + SignExtend(imm24:'00') *)
Definition arm_b_target (w P : Z) : Z := P + 8 + sext 26 (bits w 0 24 * 4).
(* LDR (literal): U at 23, imm12 at 11:0; address = Align(PC,4) + 8 +/- imm12 (P is 4-aligned) *)
Definition arm_ldr_lit_addr (w P : Z) : Z :=
  if bits w 23 1 =? 1 then P + 8 + bits w 0 12 else P + 8 - bits w 0 12.

(* ---------------- Thumb ---------------- *)
(* B (T2): imm11 at 10:0; target = PC + 4 + SignExtend(imm11:'0') *)
Definition thumb_b_target (w P : Z) : Z := P + 4 + sext 12 (bits w 0 11 * 2).
(* B<c> (T1): imm8 at 7:0; target = PC + 4 + SignExtend(imm8:'0') *)
Definition thumb_bcc_target (w P : Z) : Z := P + 4 + sext 9 (bits w 0 8 * 2).
(* LDR (literal) T1: imm8 at 7:0; address = Align(PC + 4, 4) + imm8 * 4 *)
Definition thumb_ldr_lit_addr (w P : Z) : Z := (P + 4) / 4 * 4 + bits w 0 8 * 4.
(* BL (T1, 32 bit): first halfword hw1 = low 16 bits of the little-endian 4-byte word.
   S = hw1[10], imm10 = hw1[9:0], J1 = hw2[13], J2 = hw2[11], imm11 = hw2[10:0];
   I1 = NOT(J1 xor S), I2 = NOT(J2 xor S); imm32 = SignExtend(S:I1:I2:imm10:imm11:'0') *)
Definition thumb_bl_target (w P : Z) : Z :=
  let s := bits w 10 1 in
  let i1 := if bits w 29 1 =? s then 1 else 0 in
  let i2 := if bits w 27 1 =? s then 1 else 0 in
  P + 4 + sext 25 (bits w 16 11 * 2 + bits w 0 10 * 4096 + i2 * 4194304 + i1 * 8388608 + s * 16777216).

(* ---------------- x86-64 ---------------- *)
(* rel32 of JMP/CALL/Jcc: the field is the signed displacement from the end of the field *)
Definition x86_rel32 (w : Z) : Z := sext 32 w.
Definition x86_rel32_target (w P : Z) : Z := P + 4 + sext 32 w.
Definition x86_rel8_target (w P : Z) : Z := P + 1 + sext 8 w.

(* ---------------- data words ---------------- *)
(* an n-byte little-endian data word designates address S when it equals S (as an unsigned n-byte number) *)
Definition word_reads (n w : Z) : Z := w mod 2 ^ (8 * n).
