(* Spec/IRSemArith.v — arithmetic semantics of ppci IR integer instructions (property C24).
   Independent of ir2py: plain mathematics on Z.  An integer type is (bits, signed); the IR
   types i8..i64 / u8..u64 are instances, the definitions are meaningful for every bits > 0.
   [None] = the IR (like C) leaves the result undefined. *)
From Coq Require Import ZArith List Bool.
Import ListNotations.
Open Scope Z_scope.

Record ity := mkity { bits : Z; signed : bool }.

Definition i8 := mkity 8 true.   Definition u8 := mkity 8 false.
Definition i16 := mkity 16 true. Definition u16 := mkity 16 false.
Definition i32 := mkity 32 true. Definition u32 := mkity 32 false.
Definition i64 := mkity 64 true. Definition u64 := mkity 64 false.
Definition ir_int_types := [i8; i16; i32; i64; u8; u16; u32; u64].

(* value range: [lo, hi) *)
Definition lo (t : ity) : Z := if signed t then - 2 ^ (bits t - 1) else 0.
Definition hi (t : ity) : Z := if signed t then 2 ^ (bits t - 1) else 2 ^ bits t.
Definition in_range (t : ity) (v : Z) : Prop := lo t <= v < hi t.
Definition in_rangeb (t : ity) (v : Z) : bool := (lo t <=? v) && (v <? hi t).

(* the representative of v modulo 2^bits inside the range of t *)
Definition wrap (t : ity) (v : Z) : Z :=
  let m := v mod 2 ^ bits t in
  if signed t && (2 ^ (bits t - 1) <=? m) then m - 2 ^ bits t else m.

Inductive binop := Add | Sub | Mul | Div | Rem | Or | And | Xor | Shl | Shr | Rol | Ror.
Inductive unop := Neg | Inv.
Inductive cmpop := CEq | CLt | CGt | CGe | CLe | CNe.

Definition all_binops := [Add; Sub; Mul; Div; Rem; Or; And; Xor; Shl; Shr; Rol; Ror].

(* division / remainder are undefined for a zero divisor and for signed MIN / -1 *)
Definition div_defined (t : ity) (a b : Z) : bool :=
  negb (b =? 0) && negb (signed t && (a =? lo t) && (b =? -1)).
Definition shift_defined (t : ity) (n : Z) : bool := (0 <=? n) && (n <? bits t).

(* rotate the [bits]-bit pattern of a left by n (0 <= n < bits) *)
Definition rotl_bits (t : ity) (a n : Z) : Z :=
  let u := a mod 2 ^ bits t in
  (u * 2 ^ n) mod 2 ^ bits t + u / 2 ^ (bits t - n).

Definition sem_binop (op : binop) (t : ity) (a b : Z) : option Z :=
  match op with
  | Add => Some (wrap t (a + b))
  | Sub => Some (wrap t (a - b))
  | Mul => Some (wrap t (a * b))
  | Div => if div_defined t a b then Some (Z.quot a b) else None      (* truncates toward 0 *)
  | Rem => if div_defined t a b then Some (Z.rem a b) else None       (* sign of the dividend *)
  | Or => Some (wrap t (Z.lor a b))
  | And => Some (wrap t (Z.land a b))
  | Xor => Some (wrap t (Z.lxor a b))
  | Shl => if shift_defined t b then Some (wrap t (a * 2 ^ b)) else None
  | Shr => if shift_defined t b then Some (a / 2 ^ b) else None
           (* floor: arithmetic shift of a signed value, logical shift of an unsigned one *)
  | Rol => if shift_defined t b then Some (wrap t (rotl_bits t a b)) else None
  | Ror => if shift_defined t b then Some (wrap t (rotl_bits t a ((bits t - b) mod bits t))) else None
  end.

Definition sem_unop (op : unop) (t : ity) (a : Z) : Z :=
  match op with
  | Neg => wrap t (- a)
  | Inv => wrap t (- a - 1)        (* all bits flipped *)
  end.

Definition sem_cmp (c : cmpop) (a b : Z) : bool :=
  match c with
  | CEq => a =? b | CLt => a <? b | CGt => a >? b
  | CGe => a >=? b | CLe => a <=? b | CNe => negb (a =? b)
  end.

(* integer -> integer cast: reinterpret modulo 2^bits of the destination *)
Definition sem_cast_int (dst : ity) (v : Z) : Z := wrap dst v.

(* A floating point datum, abstractly: every finite float is the rational num/den (den > 0);
   the spec only needs the integer part. *)
Inductive fl := FFinite (num den : Z) | FInf (negative : bool) | FNaN.

(* float -> integer cast: truncate toward zero; undefined if the truncated value does not fit *)
Definition sem_cast_float (dst : ity) (x : fl) : option Z :=
  match x with
  | FFinite n d => let q := Z.quot n d in if in_rangeb dst q then Some q else None
  | _ => None
  end.

(* ---- memory: little-endian, two's complement, [bits/8] bytes ---- *)
Fixpoint le_bytes (n : nat) (u : Z) : list Z :=
  match n with O => [] | S k => u mod 256 :: le_bytes k (u / 256) end.
Fixpoint le_value (bs : list Z) : Z :=
  match bs with [] => 0 | b :: r => b + 256 * le_value r end.
Definition sem_store (t : ity) (v : Z) : list Z := le_bytes (Z.to_nat (bits t / 8)) (v mod 2 ^ bits t).
Definition sem_load (t : ity) (bs : list Z) : Z := wrap t (le_value bs).

(* ---- phi nodes: on entry through an edge all phis of the target read their incoming value in
   the OLD environment simultaneously; nothing else changes ---- *)
Section Phi.
  Context {V : Type}.
  Definition env := list (nat * V).          (* variable id -> value, first binding wins *)
  Fixpoint lookup (e : env) (x : nat) : option V :=
    match e with [] => None | (y, v) :: r => if Nat.eqb x y then Some v else lookup r x end.
  (* phis of the target block for this edge: (phi variable, incoming variable) *)
  Definition sem_phi_edge (phis : list (nat * nat)) (e : env) : nat -> option V :=
    fun x => match find (fun p => Nat.eqb (fst p) x) phis with
             | Some p => lookup e (snd p)
             | None => lookup e x
             end.
End Phi.
