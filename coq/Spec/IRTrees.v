(* C29 — hand model (tie H) of the language of selection trees that
   ppci/codegen/irdag.py (the do_xxx methods of SelectionGraphBuilder) followed by ppci/codegen/dagsplit.py
   (DagSplitter.make_trees) can hand to TreeSelector.gen, as a regular tree grammar over the sorts

     "E"<ty>  an expression whose value lives in the register class of value type ty (operand position);
              integer types of equal width in the same register class share one sort (named after the
              first such type of the target description), because do_cast maps a cast between them to
              its source value: an I8 operand may be the tree of a U8 value and vice versa
     "L"<ty>  a load (only ever the child of a MOV: loads are chained, hence volatile, hence get a vreg)
     "S"      a statement tree (root of a tree given to the selector)

   parametrised by the target description exported from arch.info (pointer type, value types with their
   register class).  Derivation from the code:
   * operands (mk_tr): a value that lives in a vreg is the leaf REG<ty>; a value of the same block with a
     single user is nested; LABEL (globals, literal data), CONST<ty> and FPREL<ptr> (alloca / stack
     parameter: wants_vreg = False) are re-materialised as leaves.
   * do_binop/do_unop/do_undefined/do_const: <OP><ty>(a, b), NEG/INV<ty>(a), UND<ty>, CONST<ty>;
     do_cast: NOT hand-modelled: the operator (or elision) for every type pair is observed on the real code
     by the exporter (td_casts), so a change of do_cast changes the language;
     ir.ptr is replaced by the target's pointer type everywhere (new_node).
   * roots: MOV<ty>(e) (value leaving the tree, return value, call argument, phi copy, asm input),
     MOV<ty>(LDR<ty>(addr)), STR<ty>(addr, e), CJMP<ty>(a, b), JMP, CALL, ASM, MOVB(dst, src).
   Floating-point types only get ADD SUB MUL DIV NEG (the other ir.Binop/Unop operators have no meaning
   on floats and no front end emits them).  NOT in the language: blob-typed loads/stores/arguments.
   An operator name in [excl] removes its productions (known uncovered operators, see Props/C29.v). *)
From Coq Require Import String List Bool ZArith.
From PV Require Import Spec.BurgCoverSpec.
Import ListNotations.
Local Open Scope string_scope.

Record tydesc : Type := { ty_name : string; ty_cls : string; ty_int : bool; ty_bits : Z }.
(* td_casts: what the real do_cast + make_trees produce for `return cast a`, observed by the exporter for every
   (source, destination) pair of value types and ptr: (operand tree type, result tree type, operator), the
   operator being "" when the cast is mapped to its source value (elided).  ptr shows up as the pointer type. *)
Record tdesc : Type := { td_ptr : string; td_types : list tydesc; td_casts : list (string * string * string) }.

Definition int_binops : list string := ["ADD"; "SUB"; "MUL"; "DIV"; "REM"; "OR"; "SHL"; "SHR"; "AND"; "XOR"].
Definition float_binops : list string := ["ADD"; "SUB"; "MUL"; "DIV"].
Definition int_unops : list string := ["NEG"; "INV"].
Definition float_unops : list string := ["NEG"].

Definition E (t : string) : string := "E" ++ t.
Definition L (t : string) : string := "L" ++ t.
Definition mkp (s op : string) (args : list string) : prod := {| p_sort := s; p_op := op; p_args := args |}.

Definition cast_elided (d : tdesc) (f t : string) : bool :=
  existsb (fun c => match c with (a, b, o) => String.eqb a f && String.eqb b t && String.eqb o "" end)
          (td_casts d).

(* canonical representative of the cast-elision class of a type (the exporter checks that elision is a
   symmetric, transitive relation on the value types) *)
Definition canon (d : tdesc) (t : tydesc) : string :=
  match find (fun f => cast_elided d (ty_name f) (ty_name t)) (td_types d) with
  | Some f => ty_name f
  | None => ty_name t
  end.
Definition canon_name (d : tdesc) (n : string) : string :=
  match find (fun t => String.eqb (ty_name t) n) (td_types d) with
  | Some t => canon d t
  | None => n
  end.

Definition prods_of_type (d : tdesc) (t : tydesc) : list prod :=
  let n := ty_name t in
  let e := E (canon d t) in
  let ep := E (canon_name d (td_ptr d)) in
  [mkp e ("REG" ++ n) []; mkp e ("CONST" ++ n) []; mkp e ("UND" ++ n) []]
  ++ map (fun o => mkp e (o ++ n) [e; e]) (if ty_int t then int_binops else float_binops)
  ++ map (fun o => mkp e (o ++ n) [e]) (if ty_int t then int_unops else float_unops)
  ++ flat_map (fun c => match c with (a, b, o) =>
                 if String.eqb b n && negb (String.eqb o "") then [mkp e o [E (canon_name d a)]] else [] end)
              (td_casts d)
  ++ (if String.eqb n (td_ptr d) then [mkp e "LABEL" []; mkp e ("FPREL" ++ n) []] else [])
  ++ [mkp "S" ("MOV" ++ n) [e];
      mkp (L n) ("LDR" ++ n) [ep];
      mkp "S" ("MOV" ++ n) [L n];
      mkp "S" ("STR" ++ n) [ep; e];
      mkp "S" ("CJMP" ++ n) [e; e]].

Definition all_prods (d : tdesc) : list prod :=
  flat_map (prods_of_type d) (td_types d)
  ++ [mkp "S" "JMP" []; mkp "S" "CALL" []; mkp "S" "ASM" [];
      mkp "S" "MOVB" [E (canon_name d (td_ptr d)); E (canon_name d (td_ptr d))]].

Definition irtrees (d : tdesc) (excl : list string) : list prod :=
  filter (fun p => negb (existsb (String.eqb (p_op p)) excl)) (all_prods d).
