(* Spec/CPPGrammar.v — the C grammar of #if expressions (C11 6.5.3–6.5.15, 6.6, 6.10.1): a reference
   recursive-descent parser with one function per grammar level (conditional / binary levels from ||
   down to * / % / unary / primary). Independent of ppci (which uses precedence climbing). *)
From Coq Require Import ZArith List Bool String.
From PV Require Import Spec.CIntSpec.
Import ListNotations.
Open Scope Z_scope.
Open Scope string_scope.

Inductive gtok := GNum (u : bool) (v : Z) | GSym (s : string).

(* binary operator levels, lowest precedence first; every level is left associative (6.5.5–6.5.14) *)
Definition levels : list (list (string * binop)) :=
  [ [("||", BLOr)]; [("&&", BLAnd)]; [("|", BOr)]; [("^", BXor)]; [("&", BAnd)];
    [("==", BEq); ("!=", BNe)]; [("<", BLt); (">", BGt); ("<=", BLe); (">=", BGe)];
    [("<<", BShl); (">>", BShr)]; [("+", BAdd); ("-", BSub)]; [("*", BMul); ("/", BDiv); ("%", BMod)] ].

Fixpoint assoc_op (s : string) (l : list (string * binop)) : option binop :=
  match l with [] => None | (k, op) :: r => if String.eqb s k then Some op else assoc_op s r end.

Fixpoint g_cond (fuel : nat) (ts : list gtok) : option (pexpr * list gtok) :=
  match fuel with O => None | S f =>
    match g_bin f levels ts with
    | Some (c, GSym "?" :: r1) =>               (* logical-OR ? expression : conditional *)
        match g_cond f r1 with
        | Some (a, GSym ":" :: r3) =>
            match g_cond f r3 with Some (b, r4) => Some (PCond c a b, r4) | None => None end
        | _ => None
        end
    | other => other
    end
  end
with g_bin (fuel : nat) (lv : list (list (string * binop))) (ts : list gtok) : option (pexpr * list gtok) :=
  match fuel with O => None | S f =>
    match lv with
    | [] => g_unary f ts
    | l :: lv' => match g_bin f lv' ts with Some (a, r) => g_rest f l lv' a r | None => None end
    end
  end
with g_rest (fuel : nat) (l : list (string * binop)) (lv' : list (list (string * binop))) (a : pexpr)
            (ts : list gtok) : option (pexpr * list gtok) :=
  match fuel with O => None | S f =>
    match ts with
    | GSym s :: r =>
        match assoc_op s l with
        | Some op => match g_bin f lv' r with Some (b, r') => g_rest f l lv' (PBin op a b) r' | None => None end
        | None => Some (a, ts)
        end
    | _ => Some (a, ts)
    end
  end
with g_unary (fuel : nat) (ts : list gtok) : option (pexpr * list gtok) :=
  match fuel with O => None | S f =>
    match ts with
    | GNum u v :: r => Some (PLit u v, r)
    | GSym "-" :: r => match g_unary f r with Some (a, r') => Some (PUn UNeg a, r') | None => None end
    | GSym "~" :: r => match g_unary f r with Some (a, r') => Some (PUn UCompl a, r') | None => None end
    | GSym "!" :: r => match g_unary f r with Some (a, r') => Some (PUn ULNot a, r') | None => None end
    | GSym "+" :: r => match g_unary f r with Some (a, r') => Some (PUn UPlus a, r') | None => None end
    | GSym "(" :: r => match g_cond f r with Some (a, GSym ")" :: r') => Some (a, r') | _ => None end
    | _ => None
    end
  end.

(* a complete #if line *)
Definition g_parse (fuel : nat) (ts : list gtok) : option pexpr :=
  match g_cond fuel ts with Some (e, []) => Some e | _ => None end.

(* ---- unparsing with the minimal parentheses the grammar requires ----
   The nonterminal chain of 6.5.3–6.5.15 numbered from the weakest binding: 1 conditional-expression,
   2 logical-OR, 3 logical-AND, 4 inclusive-OR, 5 exclusive-OR, 6 AND, 7 equality, 8 relational, 9 shift,
   10 additive, 11 multiplicative, 12 unary / primary. An operand is parenthesised exactly when its own
   nonterminal is weaker than the one the production asks for at that position:
     unary:        op cast/unary-expression                          operand at 12
     binary L:     L-expression op (L+1)-expression (left assoc.)   left at L, right at L+1
     conditional:  logical-OR-expression ? expression : conditional-expression      2, 1 (any), 1 *)
Definition blevel (op : binop) : Z :=
  match op with
  | BLOr => 2 | BLAnd => 3 | BOr => 4 | BXor => 5 | BAnd => 6 | BEq | BNe => 7
  | BLt | BGt | BLe | BGe => 8 | BShl | BShr => 9 | BAdd | BSub => 10 | BMul | BDiv | BMod => 11
  end.
Definition elevel (e : pexpr) : Z :=
  match e with PLit _ _ | PUn _ _ => 12 | PBin op _ _ => blevel op | PCond _ _ _ => 1 end.
Definition usym (op : unop) : string :=
  match op with UNeg => "-" | UCompl => "~" | ULNot => "!" | UPlus => "+" end.
Definition bsym (op : binop) : string :=
  match op with
  | BAdd => "+" | BSub => "-" | BMul => "*" | BDiv => "/" | BMod => "%" | BShl => "<<" | BShr => ">>"
  | BAnd => "&" | BOr => "|" | BXor => "^" | BLt => "<" | BGt => ">" | BLe => "<=" | BGe => ">="
  | BEq => "==" | BNe => "!=" | BLAnd => "&&" | BLOr => "||"
  end.
Definition paren (b : bool) (l : list gtok) : list gtok := if b then (GSym "(" :: l ++ [GSym ")"])%list else l.

Fixpoint g_unparse (e : pexpr) : list gtok :=
  match e with
  | PLit u v => [GNum u v]
  | PUn op a => GSym (usym op) :: paren (Z.ltb (elevel a) (12)) (g_unparse a)
  | PBin op a b =>
      (paren (Z.ltb (elevel a) (blevel op)) (g_unparse a) ++ GSym (bsym op) ::
       paren (Z.ltb (elevel b) (blevel op + 1)) (g_unparse b))%list
  | PCond c a b =>
      (paren (Z.ltb (elevel c) (2)) (g_unparse c) ++ GSym "?" :: paren (Z.ltb (elevel a) (1)) (g_unparse a) ++
       GSym ":" :: paren (Z.ltb (elevel b) (1)) (g_unparse b))%list
  end.
