(* Spec/CEnumSpec.v — values of the enumeration constants of one enum specifier (C11 6.7.2.2).
   p3: an enumerator with `= e` has the value of the integer constant expression e; the first enumerator without
   `=` has the value 0, each later one the value of the previous enumerator plus 1.
   p2 (constraint): every value must be representable as int — a violation requires a diagnostic.
   Result: None = some defining expression has no C value (undefined: no requirement);
           Some None = constraint violation (a diagnostic is required); Some (Some vs) = the values, in order. *)
From Coq Require Import ZArith List.
From PV Require Import Spec.CIntSpec.
Import ListNotations.
Open Scope Z_scope.

Fixpoint enum_spec (dm : datamodel) (next : Z) (l : list (option expr)) : option (option (list Z)) :=
  match l with
  | [] => Some (Some [])
  | d :: r =>
      match (match d with
             | Some e => match const_eval dm e with Some (_, v) => Some v | None => None end
             | None => Some next
             end) with
      | None => None
      | Some v =>
          if in_range dm TInt v then
            match enum_spec dm (v + 1) r with
            | Some (Some vs) => Some (Some (v :: vs))
            | other => other
            end
          else Some None
      end
  end.
