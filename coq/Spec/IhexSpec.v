(* Spec/IhexSpec.v — Intel HEX, 32-bit linear variant (I32HEX): record grammar, an executable
   reference reader and the denotation of a file. Independent of ppci.
   Record:  ':' LL AAAA TT <LL data bytes> CC      (every byte as two hex digits)
     LL   number of data bytes          AAAA 16-bit load offset (big endian)      TT record type
     CC   two's complement of the low byte of the sum of all preceding bytes of the record
          (equivalently: all bytes of the record, checksum included, sum to 0 modulo 256)
   Types: 00 data; 01 end of file (LL = 0, last record); 04 extended linear address (LL = 2, the data
   are the upper 16 bits ULBA of the addresses of the following data records); 05 start linear address
   (LL = 4, the 32-bit start address). Types 02/03 belong to the segmented variant and are rejected.
   Byte i of a data record is at address ULBA * 65536 + AAAA + i; a record running past 2^32 is
   rejected here (the standard wraps modulo 4 GiB; no conforming writer needs it). *)
From PV Require Import Lib.Py.
From Coq Require Import String Ascii.
Open Scope Z_scope.

(* ---------------- text layer *)
Definition hexval (c : ascii) : option Z :=
  let n := Z.of_nat (nat_of_ascii c) in
  if (48 <=? n) && (n <=? 57) then Some (n - 48)
  else if (65 <=? n) && (n <=? 70) then Some (n - 55)
  else if (97 <=? n) && (n <=? 102) then Some (n - 87)
  else None.

Fixpoint hex_bytes (s : string) : option (list Z) :=
  match s with
  | EmptyString => Some []
  | String a (String b r) =>
      match hexval a, hexval b, hex_bytes r with
      | Some x, Some y, Some l => Some (16 * x + y :: l)
      | _, _, _ => None
      end
  | _ => None
  end.

Definition parse_line (s : string) : option (list Z) :=
  match s with
  | String c r => if Z.of_nat (nat_of_ascii c) =? 58 then hex_bytes r else None
  | _ => None
  end.

(* ---------------- record layer *)
Record irec := mk_irec { i_off : Z; i_typ : Z; i_data : list Z }.

Definition be_value (bs : list Z) : Z := fold_left (fun a b => 256 * a + b) bs 0.

Definition decode (bs : list Z) : option irec :=
  match bs with
  | ll :: ah :: al :: ty :: rest =>
      let data := removelast rest in
      if all_byte bs && (ll =? len data) && (1 <=? len rest)
         && (last rest 0 =? (- (ll + ah + al + ty + sumZ data)) mod 256)
      then Some (mk_irec (256 * ah + al) ty data)
      else None
  | _ => None
  end.

Definition read_line (s : string) : option irec :=
  match parse_line s with Some bs => decode bs | None => None end.

Fixpoint read_lines (lines : list string) : option (list irec) :=
  match lines with
  | [] => Some []
  | l :: r => match read_line l, read_lines r with
              | Some x, Some xs => Some (x :: xs)
              | _, _ => None
              end
  end.

(* ---------------- denotation: blocks (absolute address, bytes) in file order + start address *)
Definition image := (list (Z * list Z) * option Z)%type.

(* state: ULBA, blocks so far (reversed), start address *)
Fixpoint interp (rs : list irec) (ulba : Z) (blocks : list (Z * list Z)) (start : option Z)
  : option image :=
  match rs with
  | [] => None                                   (* no end-of-file record *)
  | r :: rest =>
      let t := i_typ r in
      if t =? 1 then
        match rest, i_data r with [], [] => Some (rev blocks, start) | _, _ => None end
      else if t =? 0 then
        let a := ulba * 65536 + i_off r in
        if a + len (i_data r) <=? 4294967296
        then interp rest ulba ((a, i_data r) :: blocks) start else None
      else if t =? 4 then
        if len (i_data r) =? 2 then interp rest (be_value (i_data r)) blocks start else None
      else if t =? 5 then
        if len (i_data r) =? 4 then interp rest ulba blocks (Some (be_value (i_data r))) else None
      else None
  end.

Definition denote_file (lines : list string) : option image :=
  match read_lines lines with Some rs => interp rs 0 [] None | None => None end.

(* memory described by a list of blocks / regions: the first block containing the address *)
Definition block_lookup (b : Z * list Z) (a : Z) : option Z :=
  if (fst b <=? a) && (a <? fst b + len (snd b)) then nth_error (snd b) (Z.to_nat (a - fst b)) else None.

Fixpoint lookup (bs : list (Z * list Z)) (a : Z) : option Z :=
  match bs with
  | [] => None
  | b :: r => match block_lookup b a with Some x => Some x | None => lookup r a end
  end.

(* relational form (order independent): some block holds byte x at address a *)
Definition holds (bs : list (Z * list Z)) (a x : Z) : Prop :=
  exists b, In b bs /\ block_lookup b a = Some x.

(* canonical region list: non-empty regions, ascending, with a gap between neighbours *)
Fixpoint canonical (rs : list (Z * list Z)) : Prop :=
  match rs with
  | [] => True
  | r :: tl => 0 < len (snd r) /\
               match tl with [] => True | r2 :: _ => fst r + len (snd r) < fst r2 end /\ canonical tl
  end.
