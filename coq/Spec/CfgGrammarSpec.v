(* Spec/CfgGrammarSpec.v — context-free grammars, parse trees, derivability (property C32).
   Independent of ppci: symbols are integers, a production is (lhs, rhs), a parse tree applies
   productions by index.  The "semantic value" of a parse when every production carries a
   distinct action id is the parse tree itself. *)
From Coq Require Import ZArith List Bool.
Import ListNotations.
Open Scope Z_scope.

Definition symbol := Z.

Record grammar := mkGrammar {
  terminals : list symbol;
  prods : list (symbol * list symbol);   (* production i = (lhs, rhs) *)
  start : symbol }.

Inductive tree :=
  | Leaf (a : symbol)                      (* a token of type a *)
  | Node (p : nat) (children : list tree). (* production number p applied to the children *)

Fixpoint yield (t : tree) : list symbol :=
  match t with
  | Leaf a => [a]
  | Node _ cs => flat_map yield cs
  end.

(* [wf_tree g X t]: t is a parse tree of grammar g whose root is labelled X. *)
Inductive wf_tree (g : grammar) : symbol -> tree -> Prop :=
  | wf_leaf a : In a (terminals g) -> wf_tree g a (Leaf a)
  | wf_node p X rhs cs :
      nth_error (prods g) p = Some (X, rhs) -> wf_forest g rhs cs -> wf_tree g X (Node p cs)
with wf_forest (g : grammar) : list symbol -> list tree -> Prop :=
  | wf_nil : wf_forest g [] []
  | wf_cons X xs t ts : wf_tree g X t -> wf_forest g xs ts -> wf_forest g (X :: xs) (t :: ts).

Scheme wf_tree_ind2 := Induction for wf_tree Sort Prop
  with wf_forest_ind2 := Induction for wf_forest Sort Prop.
Combined Scheme wf_tree_forest_ind from wf_tree_ind2, wf_forest_ind2.

(* X derives the terminal word w *)
Definition derives (g : grammar) (X : symbol) (w : list symbol) : Prop :=
  exists t, wf_tree g X t /\ yield t = w.

(* w is a sentence of g *)
Definition sentence (g : grammar) (w : list symbol) : Prop := derives g (start g) w.

(* t is a parse of w: a parse tree rooted at the start symbol with yield w
   (= "the value computed by the semantic actions of a derivation of w") *)
Definition parse_of (g : grammar) (w : list symbol) (t : tree) : Prop :=
  wf_tree g (start g) t /\ yield t = w.
