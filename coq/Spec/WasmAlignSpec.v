(* Spec/WasmAlignSpec.v — C21: natural alignment of the WebAssembly memory instructions, written from
   the access width each mnemonic names (independent of ppci/wasm/text/util.py).  One row per
   instruction: (mnemonic, number of bits accessed in memory).  The natural alignment exponent is
   log2 (bits / 8); a memarg without "align=" denotes exactly this alignment (core spec, text format
   of memarg).  The check also reads this file line-wise for its search oracle. *)
From Coq Require Import ZArith List String.
Import ListNotations.
Local Open Scope string_scope.
Local Open Scope Z_scope.

Definition spec_mem_access_bits : list (string * Z) := [
  ("i32.load", 32); ("i64.load", 64); ("f32.load", 32); ("f64.load", 64);
  ("i32.load8_s", 8); ("i32.load8_u", 8); ("i32.load16_s", 16); ("i32.load16_u", 16);
  ("i64.load8_s", 8); ("i64.load8_u", 8); ("i64.load16_s", 16); ("i64.load16_u", 16);
  ("i64.load32_s", 32); ("i64.load32_u", 32);
  ("i32.store", 32); ("i64.store", 64); ("f32.store", 32); ("f64.store", 64);
  ("i32.store8", 8); ("i32.store16", 16); ("i64.store8", 8); ("i64.store16", 16); ("i64.store32", 32);
  ("v128.load", 128); ("v128.store", 128);
  ("v128.load8x8_s", 64); ("v128.load8x8_u", 64); ("v128.load16x4_s", 64); ("v128.load16x4_u", 64);
  ("v128.load32x2_s", 64); ("v128.load32x2_u", 64);
  ("v128.load8_splat", 8); ("v128.load16_splat", 16); ("v128.load32_splat", 32); ("v128.load64_splat", 64);
  ("v128.load32_zero", 32); ("v128.load64_zero", 64);
  ("v128.load8_lane", 8); ("v128.load16_lane", 16); ("v128.load32_lane", 32); ("v128.load64_lane", 64);
  ("v128.store8_lane", 8); ("v128.store16_lane", 16); ("v128.store32_lane", 32); ("v128.store64_lane", 64)
].

(* alignment exponent of an access of [bits] bits: log2 of the number of bytes *)
Definition natural_align (bits : Z) : Z := Z.log2 (bits / 8).
