(* Spec/PyExprSpec.v -- what CPython computes for integer expressions, conditions and range
   loops, restricted to evaluations whose every intermediate value fits a signed 64-bit word.
   Independent of ppci: Python int = Z, [//] and [%] are floor division / sign-of-divisor
   modulo (Z.div / Z.modulo), shifts by a negative count raise, division by zero raises.
   [eval64] returns None when CPython raises OR when some intermediate value leaves the 64-bit
   range (the property C36 is only stated inside that range). *)
From Coq Require Import ZArith List Bool.
Import ListNotations.
Open Scope Z_scope.

Inductive pbin := PAdd | PSub | PMult | PFloorDiv | PMod | PLShift | PRShift
                | PBitAnd | PBitOr | PBitXor
                | PTrueDiv.      (* a / b : the result is a float, never an int value *)
Inductive pcmp := PEq | PNotEq | PLt | PLtE | PGt | PGtE.
Inductive pexpr :=
  | PConst (z : Z)
  | PVar (n : nat)                       (* n-th integer variable of the environment *)
  | PBin (o : pbin) (a b : pexpr)
  | PNeg (a : pexpr).
(* ast.BoolOp carries ONE operator and a LIST of operands: `a and b and c` is
   BoolOp(And, [a; b; c]) (CPython's parser produces lists of length >= 2; explicit parentheses
   nest).  Operands are evaluated left to right until one decides. *)
Inductive pcond :=
  | PCmp (o : pcmp) (a b : pexpr)
  | PBoolOp (isand : bool) (vs : list pcond)
  | PNot (a : pcond).
Definition PAnd (a b : pcond) : pcond := PBoolOp true [a; b].
Definition POr (a b : pcond) : pcond := PBoolOp false [a; b].

Definition in64 (z : Z) : bool := (- 2 ^ 63 <=? z) && (z <? 2 ^ 63).
Definition chk64 (z : Z) : option Z := if in64 z then Some z else None.

(* CPython's int operators; None = exception *)
Definition py_binop (o : pbin) (a b : Z) : option Z :=
  match o with
  | PAdd => Some (a + b)
  | PSub => Some (a - b)
  | PMult => Some (a * b)
  | PFloorDiv => if b =? 0 then None else Some (a / b)
  | PMod => if b =? 0 then None else Some (a mod b)
  | PLShift => if b <? 0 then None else Some (a * 2 ^ b)
  | PRShift => if b <? 0 then None else Some (a / 2 ^ b)
  | PBitAnd => Some (Z.land a b)
  | PBitOr => Some (Z.lor a b)
  | PBitXor => Some (Z.lxor a b)
  | PTrueDiv => None            (* no integer result (7 / 2 = 3.5, 8 / 2 = 4.0) *)
  end.
Definition py_cmp (o : pcmp) (a b : Z) : bool :=
  match o with
  | PEq => a =? b | PNotEq => negb (a =? b) | PLt => a <? b | PLtE => a <=? b
  | PGt => b <? a | PGtE => b <=? a
  end.

Fixpoint eval64 (env : list Z) (e : pexpr) : option Z :=
  match e with
  | PConst z => chk64 z
  | PVar n => match nth_error env n with Some z => chk64 z | None => None end
  | PBin o a b =>
      match eval64 env a with
      | None => None
      | Some x => match eval64 env b with
                  | None => None
                  | Some y => match py_binop o x y with Some r => chk64 r | None => None end
                  end
      end
  | PNeg a => match eval64 env a with Some x => chk64 (- x) | None => None end
  end.

(* left-to-right, short-circuit; None = an evaluated operand raised / left the range.
   `and`: the first false operand decides, else true; `or`: the first true one, else false *)
Definition chain_eval (f : pcond -> option bool) (isand : bool) : list pcond -> option bool :=
  fix go (l : list pcond) : option bool :=
  match l with
  | [] => Some isand
  | x :: r => match f x with
              | None => None
              | Some v => if Bool.eqb v isand then go r else Some v
              end
  end.
Fixpoint evalc64 (env : list Z) (c : pcond) : option bool :=
  match c with
  | PCmp o a b =>
      match eval64 env a with
      | None => None
      | Some x => match eval64 env b with Some y => Some (py_cmp o x y) | None => None end
      end
  | PBoolOp isand vs => chain_eval (evalc64 env) isand vs
  | PNot a => match evalc64 env a with Some v => Some (negb v) | None => None end
  end.

(* ------------------------------------------------------------------ for v in range(a, b)
   the values the loop variable takes, in order: a, a+1, ..., b-1 *)
Fixpoint zrange_from (a : Z) (k : nat) : list Z :=
  match k with O => [] | S k' => a :: zrange_from (a + 1) k' end.
Definition py_range (a b : Z) : list Z := zrange_from a (Z.to_nat (b - a)).

(* an abstract loop body: what happens in the iteration with loop-variable value i *)
Inductive exit_kind := Fall | Cont | Brk.
(* the iterations CPython performs: every value of the range up to and including the first
   one whose body executes break *)
Fixpoint py_loop_values (body : Z -> exit_kind) (l : list Z) : list Z :=
  match l with
  | [] => []
  | i :: r => match body i with Brk => [i] | _ => i :: py_loop_values body r end
  end.
Definition py_for (body : Z -> exit_kind) (a b : Z) : list Z := py_loop_values body (py_range a b).
(* value bound to the loop variable after the loop (None = still unbound: no iteration) *)
Definition py_for_var_after (body : Z -> exit_kind) (a b : Z) : option Z :=
  match rev (py_for body a b) with [] => None | x :: _ => Some x end.
