(* Spec/IRSem.v — executable reference semantics of ppci IR (fuelled interpreter over
   Spec/IRSyntax.v).  This is a READING of the IR's intended meaning (docs/reference/ir, the
   property statements of C02/C24), written independently of every ppci back-end, so that a
   reader can disagree with it.  tools/irsem_py.py is an independent Python interpreter with the
   same observable behaviour; tools/props/irhub_selftest.py compares the two (and ppci's
   ir_to_python where that is applicable).

   PUBLIC INTERFACE (stable; add, do not alter)
   ------------------------------------------------------------------------------------------
   cfg      := { ptr_bytes; glob_base; stack_base }        [default_cfg] = 8 / 0x10000 / 0x1000000
   value    := Vint z | Vflt bits64 | Vblob addr size | Vundef
               (integers and pointers are Vint, normalised to the range of their type)
   mem      := list (Z * Z)   address -> byte, exactly the allocated addresses
   st       := { s_mem : mem; s_sp : Z (next free stack address); s_tr : trace (newest first) }
   event    := (callee name, argument values)
   ub       := UBDivZero | UBDivOverflow | UBShift | UBUndefRead | UBMem
   outcome A := ODone a | OUB u | OUnsupported | OStuck | OFuel
               OUB          = the program has undefined behaviour (first one in execution order)
               OUnsupported = outside the modelled fragment (float arithmetic/compare/casts, f32
                              loads/stores, indirect calls, function or external-variable
                              addresses used as data)
               OStuck       = ill-formed program (dangling reference, missing block or phi input,
                              arity mismatch, blob used as scalar, phi in the entry block...)
               OFuel        = fuel exhausted (one unit per block entered; a callee starts with
                              the caller's remaining fuel)
   layout c m            : list (string * Z)      addresses of the global variables, in order
   init_st c m           : st                     memory with the globals' initial contents
   run_function c m fname args s fuel : outcome (option value * st)
   run_main c m fname args fuel       : outcome (option value * list (string * list Z) * trace)
        = run_function from init_st, observed as (return value, final bytes of every global
          variable, trace in chronological order) — the "observable behaviour".
   wrap_ty, eval_binop, eval_unop, eval_cast, eval_cond : the arithmetic, usable separately.

   Semantics in one paragraph.  Integer arithmetic is fixed-width two's complement wrap-around;
   [/] and [%] truncate toward zero (Z.quot / Z.rem) and are UB on a zero divisor and on signed
   MIN / -1; shifts and rotates are defined for 0 <= n < bits (>> is arithmetic for signed types,
   logical for unsigned; rol/ror rotate the bits-wide pattern); ptr behaves as an unsigned
   integer of 8*ptr_bytes bits; int<->int/ptr casts wrap; integer constants are wrapped to their
   type.  Phi nodes of a block are evaluated simultaneously on edge entry from the values at the
   end of the predecessor; a phi may carry Vundef, every other read of Vundef is UB.  Memory is
   little-endian bytes; Alloc and LiteralData yield fresh disjoint zero-/data-filled regions
   (bump allocation from stack_base, never reused); globals live at consecutive aligned addresses
   from glob_base with their initial value (bytes parts and little-endian addresses for
   (ptr, label) parts; zero otherwise); access outside allocated bytes is UB (UBMem).
   Calls to module functions are executed; calls to externals append (name, args) to the trace and
   return 0.  Volatile flags do not change the result.
   FLOATS: only what is cheap.  Float constants are carried as their binary64 bit pattern
   (Vflt; an f32 constant carries the bit pattern of the Python float it was built from), f64
   values can be stored, loaded, passed, returned and merged by phis; everything else on floats
   is OUnsupported.  Definitions and small sanity examples only. *)
From PV Require Import Lib.Py Lib.Val Spec.IRSyntax.
From Coq Require Import String.
Open Scope Z_scope.

Record cfg := mk_cfg { ptr_bytes : Z; glob_base : Z; stack_base : Z }.
Definition default_cfg := mk_cfg 8 65536 16777216.

Inductive value := Vint (z : Z) | Vflt (bits64 : Z) | Vblob (addr size : Z) | Vundef.
Definition mem := list (Z * Z).
Definition event := (string * list value)%type.
Definition trace := list event.
Record st := mk_st { s_mem : mem; s_sp : Z; s_tr : trace }.

Inductive ub := UBDivZero | UBDivOverflow | UBShift | UBUndefRead | UBMem.
Inductive outcome (A : Type) : Type :=
  | ODone (a : A) | OUB (u : ub) | OUnsupported | OStuck | OFuel.
Arguments ODone {A} a.
Arguments OUB {A} u.
Arguments OUnsupported {A}.
Arguments OStuck {A}.
Arguments OFuel {A}.

Definition obind {A B} (o : outcome A) (k : A -> outcome B) : outcome B :=
  match o with
  | ODone a => k a | OUB u => OUB u | OUnsupported => OUnsupported | OStuck => OStuck
  | OFuel => OFuel
  end.
Notation "x <~ e ;; k" := (obind e (fun x => k)) (at level 61, e at next level, right associativity).
Notation "' p <~ e ;; k" := (obind e (fun x => let 'p := x in k))
  (at level 61, p pattern, e at next level, right associativity).
Definition of_opt {A} (o : option A) (d : outcome A) : outcome A :=
  match o with Some a => ODone a | None => d end.
Fixpoint omap {A B} (f : A -> outcome B) (l : list A) : outcome (list B) :=
  match l with
  | [] => ODone []
  | x :: r => y <~ f x ;; ys <~ omap f r ;; ODone (y :: ys)
  end.

(* ------------------------------------------------------------------ arithmetic *)
Definition wrap_bits (bits : Z) (signed : bool) (z : Z) : Z :=
  let u := z mod 2 ^ bits in
  if signed && (2 ^ (bits - 1) <=? u) then u - 2 ^ bits else u.

(* (bits, signed) of the types integers live in; ptr = unsigned of 8*ptr_bytes bits *)
Definition int_shape (c : cfg) (t : ty) : option (Z * bool) :=
  match t with
  | Ptr => Some (8 * ptr_bytes c, false)
  | _ => if ty_is_int t then match ty_bits t with Some b => Some (b, ty_signed t) | None => None end
         else None
  end.
Definition wrap_ty (c : cfg) (t : ty) (z : Z) : option Z :=
  match int_shape c t with Some (b, s) => Some (wrap_bits b s z) | None => None end.

Definition eval_binop (c : cfg) (t : ty) (o : binop) (a b : Z) : outcome Z :=
  match int_shape c t with
  | None => if ty_is_float t then OUnsupported else OStuck
  | Some (bits, sg) =>
    let w := wrap_bits bits sg in
    let shift_ok := (0 <=? b) && (b <? bits) in
    let u := a mod 2 ^ bits in
    match o with
    | Add => ODone (w (a + b))
    | Sub => ODone (w (a - b))
    | Mul => ODone (w (a * b))
    | Div => if b =? 0 then OUB UBDivZero
             else if sg && (a =? - 2 ^ (bits - 1)) && (b =? -1) then OUB UBDivOverflow
             else ODone (w (Z.quot a b))
    | Rem => if b =? 0 then OUB UBDivZero
             else if sg && (a =? - 2 ^ (bits - 1)) && (b =? -1) then OUB UBDivOverflow
             else ODone (w (Z.rem a b))
    | Or => ODone (w (Z.lor a b))
    | And => ODone (w (Z.land a b))
    | Xor => ODone (w (Z.lxor a b))
    | Shl => if shift_ok then ODone (w (a * 2 ^ b)) else OUB UBShift
    | Shr => if shift_ok then ODone (w (a / 2 ^ b)) else OUB UBShift
    | Rol => if shift_ok then ODone (w (u * 2 ^ b + u / 2 ^ (bits - b))) else OUB UBShift
    | Ror => if shift_ok then ODone (w (u / 2 ^ b + u * 2 ^ (bits - b))) else OUB UBShift
    end
  end.
Definition eval_unop (c : cfg) (t : ty) (o : unop) (a : Z) : outcome Z :=
  match int_shape c t with
  | None => if ty_is_float t then OUnsupported else OStuck
  | Some (bits, sg) =>
    match o with
    | Neg => ODone (wrap_bits bits sg (- a))
    | Inv => ODone (wrap_bits bits sg (- a - 1))
    end
  end.
Definition eval_cast (c : cfg) (t : ty) (v : value) : outcome value :=
  match v with
  | Vint z => match wrap_ty c t z with
              | Some r => ODone (Vint r)
              | None => if ty_is_float t then OUnsupported else OStuck
              end
  | Vflt _ => if ty_is_blob t then OStuck else OUnsupported
  | Vblob _ _ => OStuck
  | Vundef => OUB UBUndefRead
  end.
Definition eval_cond (c : cond) (a b : Z) : bool :=
  match c with
  | Ceq => a =? b | Clt => a <? b | Cgt => a >? b | Cge => a >=? b | Cle => a <=? b
  | Cne => negb (a =? b)
  end.
Definition eval_const (c : cfg) (t : ty) (k : cst) : outcome value :=
  match k with
  | CInt z => match wrap_ty c t z with
              | Some r => ODone (Vint r)
              | None => if ty_is_float t then OUnsupported else OStuck
              end
  | CFloat b => if ty_is_float t then ODone (Vflt b) else OStuck
  end.

(* ------------------------------------------------------------------ memory *)
Fixpoint mem_get (m : mem) (a : Z) : option Z :=
  match m with [] => None | (k, v) :: r => if k =? a then Some v else mem_get r a end.
Fixpoint mem_set (m : mem) (a b : Z) : option mem :=
  match m with
  | [] => None
  | (k, v) :: r => if k =? a then Some ((k, b) :: r)
                   else match mem_set r a b with Some r' => Some ((k, v) :: r') | None => None end
  end.
Fixpoint read_bytes (m : mem) (a : Z) (n : nat) : option (list Z) :=
  match n with
  | O => Some []
  | S n' => match mem_get m a, read_bytes m (a + 1) n' with
            | Some b, Some r => Some (b :: r) | _, _ => None
            end
  end.
Fixpoint write_bytes (m : mem) (a : Z) (l : list Z) : option mem :=
  match l with
  | [] => Some m
  | b :: r => match mem_set m a b with Some m' => write_bytes m' (a + 1) r | None => None end
  end.
Fixpoint alloc_bytes (m : mem) (a : Z) (l : list Z) : mem :=
  match l with [] => m | b :: r => (a, b) :: alloc_bytes m (a + 1) r end.
Fixpoint le_encode (z : Z) (n : nat) : list Z :=
  match n with O => [] | S n' => z mod 256 :: le_encode (z / 256) n' end.
Fixpoint le_decode (l : list Z) : Z :=
  match l with [] => 0 | b :: r => b + 256 * le_decode r end.
Definition zeros (n : Z) : list Z := repeat 0 (Z.to_nat n).
Definition align_up (a al : Z) : Z := if al <=? 1 then a else ((a + al - 1) / al) * al.

(* size in bytes of a scalar of type t in memory; None = not a scalar / not modelled *)
Definition scalar_bytes (c : cfg) (t : ty) : outcome Z :=
  match t with
  | Ptr => ODone (ptr_bytes c)
  | F64 => ODone 8
  | F32 => OUnsupported
  | Blob _ _ => OStuck
  | _ => match ty_bits t with Some b => ODone (b / 8) | None => OStuck end
  end.

(* ------------------------------------------------------------------ globals *)
Definition init_len (c : cfg) (i : init) : Z :=
  match i with InitBytes d => len d | InitRef _ _ => ptr_bytes c end.
Definition gvar_size (c : cfg) (g : gvar) : Z :=
  match g_value g with
  | None => Z.max 0 (g_amount g)
  | Some l => Z.max (Z.max 0 (g_amount g)) (sumZ (map (init_len c) l))
  end.
Fixpoint layout_from (c : cfg) (a : Z) (l : list gvar) : list (string * Z) :=
  match l with
  | [] => []
  | g :: r => let a' := align_up a (g_align g) in
              (g_name g, a') :: layout_from c (a' + gvar_size c g) r
  end.
Definition layout (c : cfg) (m : modul) : list (string * Z) := layout_from c (glob_base c) (m_vars m).
Fixpoint assoc_str {A} (s : string) (l : list (string * A)) : option A :=
  match l with [] => None | (k, v) :: r => if String.eqb s k then Some v else assoc_str s r end.
Definition gvar_bytes (c : cfg) (ge : list (string * Z)) (g : gvar) : list Z :=
  let body := match g_value g with
              | None => []
              | Some l => flat_map (fun i => match i with
                                             | InitBytes d => d
                                             | InitRef _ s =>
                                                 le_encode (match assoc_str s ge with Some a => a | None => 0 end)
                                                           (Z.to_nat (ptr_bytes c))
                                             end) l
              end in
  body ++ zeros (gvar_size c g - len body).
Definition init_st (c : cfg) (m : modul) : st :=
  let ge := layout c m in
  mk_st (fold_left (fun mm g => match assoc_str (g_name g) ge with
                                | Some a => alloc_bytes mm a (gvar_bytes c ge g)
                                | None => mm
                                end) (m_vars m) [])
        (stack_base c) [].

(* ------------------------------------------------------------------ the interpreter *)
Definition env := list (vid * value).
Fixpoint env_get (e : env) (v : vid) : option value :=
  match e with [] => None | (k, x) :: r => if Pos.eqb k v then Some x else env_get r v end.

Section Exec.
  Variable c : cfg.
  Variable m : modul.
  Variable ge : list (string * Z).

  (* phi_mode: Vundef may be carried *)
  Definition eval_ref (phi_mode : bool) (e : env) (args : list value) (r : vref) : outcome value :=
    match r with
    | Loc v => match env_get e v with
               | Some Vundef => if phi_mode then ODone Vundef else OUB UBUndefRead
               | Some x => ODone x
               | None => OStuck
               end
    | Param n => of_opt (nth_error args n) OStuck
    | Glob s => match assoc_str s ge with
                | Some a => ODone (Vint a)
                | None => match find_func m s, find_ext m s with
                          | None, None => OStuck
                          | _, _ => OUnsupported
                          end
                end
    | Unres _ => OStuck
    end.
  Definition eval_int (e : env) (args : list value) (r : vref) : outcome Z :=
    v <~ eval_ref false e args r ;;
    match v with Vint z => ODone z | Vflt _ => OUnsupported | _ => OStuck end.

  Definition ref_ty (f : func) (r : vref) : option ty :=
    match r with
    | Loc v => match find_def f v with Some d => Some (def_ty d) | None => None end
    | Param n => match nth_error (f_params f) n with Some p => Some (snd p) | None => None end
    | Glob _ => Some Ptr
    | Unres _ => None
    end.

  Definition load_val (t : ty) (s : st) (a : Z) : outcome value :=
    n <~ scalar_bytes c t ;;
    match read_bytes (s_mem s) a (Z.to_nat n) with
    | None => OUB UBMem
    | Some bs =>
        let u := le_decode bs in
        if ty_is_float t then ODone (Vflt u)
        else match wrap_ty c t u with Some z => ODone (Vint z) | None => OStuck end
    end.
  Definition store_val (t : ty) (s : st) (a : Z) (v : value) : outcome st :=
    n <~ scalar_bytes c t ;;
    z <~ match v with
         | Vint z => if ty_is_float t then OStuck else ODone z
         | Vflt b => if ty_is_float t then ODone b else OStuck
         | Vblob _ _ => OStuck
         | Vundef => OUB UBUndefRead
         end ;;
    match write_bytes (s_mem s) a (le_encode z (Z.to_nat n)) with
    | None => OUB UBMem
    | Some mm => ODone (mk_st mm (s_sp s) (s_tr s))
    end.
  Definition do_alloc (s : st) (data : list Z) (al : Z) : Z * st :=
    let a := align_up (s_sp s) al in
    (a, mk_st (alloc_bytes (s_mem s) a data) (a + len data) (s_tr s)).

  (* every instruction except phis, calls and terminators *)
  Definition step_simple (f : func) (args : list value) (e : env) (s : st) (i : instr)
    : outcome (env * st) :=
    match i with
    | IConst v _ t k => x <~ eval_const c t k ;; ODone ((v, x) :: e, s)
    | IBinop v _ t o a b =>
        x <~ eval_int e args a ;; y <~ eval_int e args b ;;
        z <~ eval_binop c t o x y ;; ODone ((v, Vint z) :: e, s)
    | IUnop v _ t o a =>
        x <~ eval_int e args a ;; z <~ eval_unop c t o x ;; ODone ((v, Vint z) :: e, s)
    | ICast v _ t a =>
        x <~ eval_ref false e args a ;; y <~ eval_cast c t x ;; ODone ((v, y) :: e, s)
    | ILoad v _ t a _ =>
        p <~ eval_int e args a ;; x <~ load_val t s p ;; ODone ((v, x) :: e, s)
    | IStore x a _ =>
        p <~ eval_int e args a ;;
        t <~ of_opt (ref_ty f x) OStuck ;;
        xv <~ eval_ref false e args x ;;
        s' <~ store_val t s p xv ;; ODone (e, s')
    | IAlloc v _ size al =>
        if size <=? 0 then OStuck
        else let '(a, s') := do_alloc s (zeros size) al in ODone ((v, Vblob a size) :: e, s')
    | IAddrOf v _ a =>
        x <~ eval_ref false e args a ;;
        match x with Vblob p _ => ODone ((v, Vint p) :: e, s) | _ => OStuck end
    | ILit v _ data =>
        let '(a, s') := do_alloc s data 1 in ODone ((v, Vblob a (len data)) :: e, s')
    | ICopyBlob d sr n =>
        pd <~ eval_int e args d ;; ps <~ eval_int e args sr ;;
        if n <? 0 then OStuck
        else match read_bytes (s_mem s) ps (Z.to_nat n) with
             | None => OUB UBMem
             | Some bs => match write_bytes (s_mem s) pd bs with
                          | None => OUB UBMem
                          | Some mm => ODone (e, mk_st mm (s_sp s) (s_tr s))
                          end
             end
    | IUndef v _ _ => ODone ((v, Vundef) :: e, s)
    | IPhi _ _ _ _ => ODone (e, s)
    | _ => OStuck
    end.

  (* values of all phis of a block on entry from [pred], evaluated in the OLD environment *)
  Fixpoint eval_phis (pred : option bid) (e : env) (args : list value) (l : list instr)
    : outcome env :=
    match l with
    | [] => ODone []
    | IPhi v _ _ ins :: r =>
        match pred with
        | None => OStuck
        | Some p =>
            match find (fun q => Pos.eqb (fst q) p) ins with
            | None => OStuck
            | Some q => x <~ eval_ref true e args (snd q) ;;
                        rest <~ eval_phis pred e args r ;; ODone ((v, x) :: rest)
            end
        end
    | _ :: r => eval_phis pred e args r
    end.

  Definition entry_bid (f : func) : option bid :=
    match f_blocks f with k :: _ => Some (b_id k) | [] => None end.

  (* a call; [rec g vs s] runs module function g *)
  Definition do_call (rec : func -> list value -> st -> outcome (option value * st))
             (want_value : bool) (callee : vref) (vs : list value) (s : st)
    : outcome (option value * st) :=
    match callee with
    | Glob name =>
        match find_func m name with
        | Some g =>
            if negb (Nat.eqb (List.length vs) (List.length (f_params g))) then OStuck
            else '(r, s') <~ rec g vs s ;;
                 match want_value, r with
                 | true, Some x => ODone (Some x, s')
                 | false, None => ODone (None, s')
                 | _, _ => OStuck
                 end
        | None =>
            let s' := mk_st (s_mem s) (s_sp s) ((name, vs) :: s_tr s) in
            match find_ext m name, want_value with
            | Some (EFunc _ tys rt), true =>
                if negb (Nat.eqb (List.length vs) (List.length tys)) then OStuck
                else if ty_is_float rt then ODone (Some (Vflt 0), s')
                else if ty_is_blob rt then OStuck else ODone (Some (Vint 0), s')
            | Some (EProc _ tys), false =>
                if negb (Nat.eqb (List.length vs) (List.length tys)) then OStuck else ODone (None, s')
            | _, _ => OStuck
            end
        end
    | Loc _ | Param _ => OUnsupported
    | Unres _ => OStuck
    end.

  Fixpoint exec_block (fuel : nat) (f : func) (args : list value) (pred : option bid) (b : bid)
           (e : env) (s : st) {struct fuel} : outcome (option value * st) :=
    match fuel with
    | O => OFuel
    | S n =>
      let rec := fun g vs s0 =>
        match entry_bid g with
        | Some eb => exec_block n g vs None eb [] s0
        | None => OStuck
        end in
      match find_block f b with
      | None => OStuck
      | Some blk =>
        ph <~ eval_phis pred e args (b_ins blk) ;;
        (fix go (l : list instr) (e : env) (s : st) {struct l} : outcome (option value * st) :=
           match l with
           | [] => OStuck
           | i :: r =>
             match i with
             | IJump t => exec_block n f args (Some b) t e s
             | ICJump x cc y yes no =>
                 xv <~ eval_int e args x ;; yv <~ eval_int e args y ;;
                 exec_block n f args (Some b) (if eval_cond cc xv yv then yes else no) e s
             | IReturn a => v <~ eval_ref false e args a ;; ODone (Some v, s)
             | IExit => ODone (None, s)
             | ICallF v _ _ callee cargs =>
                 vs <~ omap (eval_ref false e args) cargs ;;
                 '(rv, s') <~ do_call rec true callee vs s ;;
                 match rv with Some x => go r ((v, x) :: e) s' | None => OStuck end
             | ICallP callee cargs =>
                 vs <~ omap (eval_ref false e args) cargs ;;
                 '(_, s') <~ do_call rec false callee vs s ;;
                 go r e s'
             | _ => '(e', s') <~ step_simple f args e s i ;; go r e' s'
             end
           end) (b_ins blk) (ph ++ e) s
      end
    end.
End Exec.

Definition run_function (c : cfg) (m : modul) (fname : string) (args : list value) (s : st)
           (fuel : nat) : outcome (option value * st) :=
  match find_func m fname with
  | None => OStuck
  | Some f =>
      if negb (Nat.eqb (List.length args) (List.length (f_params f))) then OStuck
      else match entry_bid f with
           | Some eb => exec_block c m (layout c m) fuel f args None eb [] s
           | None => OStuck
           end
  end.

Definition global_bytes (c : cfg) (m : modul) (s : st) : list (string * list Z) :=
  let ge := layout c m in
  map (fun g => (g_name g,
                 match assoc_str (g_name g) ge with
                 | Some a => match read_bytes (s_mem s) a (Z.to_nat (gvar_size c g)) with
                             | Some bs => bs | None => []
                             end
                 | None => []
                 end)) (m_vars m).
Definition run_main (c : cfg) (m : modul) (fname : string) (args : list value) (fuel : nat)
  : outcome (option value * list (string * list Z) * trace) :=
  '(r, s) <~ run_function c m fname args (init_st c m) fuel ;;
  ODone (r, global_bytes c m s, rev (s_tr s)).

(* ------------------------------------------------------------------ printing *)
Definition value_val (v : value) : val :=
  match v with
  | Vint z => VZ z
  | Vflt b => VT [VS "f"; VZ b]
  | Vblob a s => VT [VS "blob"; VZ a; VZ s]
  | Vundef => VS "undef"
  end.
#[global] Instance ToVal_value : ToVal value := value_val.
Definition ub_name (u : ub) : string :=
  match u with
  | UBDivZero => "divzero" | UBDivOverflow => "divoverflow" | UBShift => "shift"
  | UBUndefRead => "undef" | UBMem => "mem"
  end%string.
#[global] Instance ToVal_outcome {A} `{ToVal A} : ToVal (outcome A) :=
  fun o => match o with
           | ODone a => VOk (toval a)
           | OUB u => VT [VS "ub"; VS (ub_name u)]
           | OUnsupported => VS "unsupported"
           | OStuck => VS "stuck"
           | OFuel => VS "fuel"
           end.

(* ------------------------------------------------------------------ sanity *)
Example wrap_i8 : wrap_bits 8 true 200 = -56. Proof. reflexivity. Qed.
Example div_trunc : eval_binop default_cfg I32 Div (-7) 2 = ODone (-3). Proof. reflexivity. Qed.
Example rem_trunc : eval_binop default_cfg I32 Rem (-7) 2 = ODone (-1). Proof. reflexivity. Qed.
Example div_min : eval_binop default_cfg I8 Div (-128) (-1) = OUB UBDivOverflow. Proof. reflexivity. Qed.
Example shr_arith : eval_binop default_cfg I8 Shr (-8) 1 = ODone (-4). Proof. reflexivity. Qed.
Example rol_u8 : eval_binop default_cfg U8 Rol 129 1 = ODone 3. Proof. reflexivity. Qed.
Example run_ex : run_main default_cfg ex_modul "f" [Vint 7] 10 =
  ODone (Some (Vint 12), [("g"%string, [1; 2; 3; 4])], [("ext"%string, [Vint 12])]).
Proof. vm_compute. reflexivity. Qed.
