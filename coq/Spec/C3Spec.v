(* Spec/C3Spec.v -- what C3 expressions over int / byte / bool evaluate to (property C37).
   Reading of the C3 language description (docs/reference/lang/c3, the doc-strings of
   context.get_common_type): fixed-width arithmetic in the declared types,
     int  = signed two's complement of the target's int size ([w] bits; 16 or 32 on the targets
            ppci has, the definitions work for any w > 8),
     byte = unsigned 8 bit,  bool = false/true (0/1),
   a binary operator works in the common type of its operands (int+int -> int, byte+byte -> byte,
   int+byte -> int, the byte operand being widened with its value preserved), overflow wraps
   around, / and % truncate toward zero, >> is arithmetic on int and logical on byte,
   cast<T>(e) reinterprets modulo 2^bits(T), comparisons compare the mathematical values of the
   operands in their common type, `and` / `or` evaluate their right operand only when the left
   one does not decide, `not` negates.
   [eval] = None : ill-typed, or undefined (division by zero, INT_MIN / -1, shift count outside
   0..bits-1, literal that does not fit a non-negative int, variable outside its type's range).
   Independent of ppci's structure: no IR, no coercion nodes. *)
From Coq Require Import ZArith List Bool.
Import ListNotations.
Open Scope Z_scope.

Inductive cty := CInt | CByte | CBool.
Inductive cbin := BAdd | BSub | BMul | BDiv | BRem | BShl | BShr | BAnd | BOr | BXor.
Inductive ccmp := KEq | KNe | KLt | KLe | KGt | KGe.
Inductive cexpr :=
  | ELit (z : Z)                      (* integer literal *)
  | EBool (b : bool)                  (* true / false *)
  | EVar (t : cty) (n : nat)          (* variable or parameter number n, declared with type t *)
  | EBin (o : cbin) (a b : cexpr)
  | ENeg (a : cexpr)
  | ECast (t : cty) (a : cexpr)       (* cast<t>(a) *)
  | ECmp (o : ccmp) (a b : cexpr)
  | EAnd (a b : cexpr)
  | EOr (a b : cexpr)
  | ENot (a : cexpr).

Definition cty_eqb (a b : cty) : bool :=
  match a, b with CInt, CInt | CByte, CByte | CBool, CBool => true | _, _ => false end.
Definition numeric (t : cty) : bool := match t with CBool => false | _ => true end.
Definition bits_of (w : Z) (t : cty) : Z := match t with CByte => 8 | _ => w end.
Definition signed_of (t : cty) : bool := match t with CByte => false | _ => true end.

(* representative of z modulo 2^bits in the range of the type *)
Definition norm (bits : Z) (signed : bool) (z : Z) : Z :=
  if signed then (z + 2 ^ (bits - 1)) mod 2 ^ bits - 2 ^ (bits - 1) else z mod 2 ^ bits.
Definition normt (w : Z) (t : cty) (z : Z) : Z := norm (bits_of w t) (signed_of t) z.
Definition in_range (w : Z) (t : cty) (z : Z) : bool :=
  match t with
  | CInt => (- 2 ^ (w - 1) <=? z) && (z <? 2 ^ (w - 1))
  | CByte => (0 <=? z) && (z <? 256)
  | CBool => (z =? 0) || (z =? 1)
  end.

Definition common (a b : cty) : option cty :=
  match a, b with
  | CInt, CInt | CInt, CByte | CByte, CInt => Some CInt
  | CByte, CByte => Some CByte
  | _, _ => None
  end.

Fixpoint typeof (e : cexpr) : option cty :=
  match e with
  | ELit _ => Some CInt
  | EBool _ => Some CBool
  | EVar t _ => Some t
  | EBin _ a b => match typeof a, typeof b with Some x, Some y => common x y | _, _ => None end
  | ENeg a => match typeof a with Some t => if numeric t then Some t else None | None => None end
  | ECast t a => match typeof a with
                 | Some s => if numeric s && numeric t then Some t else None | None => None end
  | ECmp _ a b => match typeof a, typeof b with
                  | Some x, Some y => match common x y with Some _ => Some CBool | None => None end
                  | _, _ => None end
  | EAnd a b | EOr a b => match typeof a, typeof b with
                          | Some CBool, Some CBool => Some CBool | _, _ => None end
  | ENot a => match typeof a with Some CBool => Some CBool | _ => None end
  end.

(* arithmetic in a type of [bits] bits, operands already in range *)
Definition arith (bits : Z) (sg : bool) (o : cbin) (a b : Z) : option Z :=
  let n := norm bits sg in
  let count_ok := (0 <=? b) && (b <? bits) in
  match o with
  | BAdd => Some (n (a + b))
  | BSub => Some (n (a - b))
  | BMul => Some (n (a * b))
  | BDiv => if b =? 0 then None
            else if sg && (a =? - 2 ^ (bits - 1)) && (b =? -1) then None
            else Some (n (Z.quot a b))
  | BRem => if b =? 0 then None
            else if sg && (a =? - 2 ^ (bits - 1)) && (b =? -1) then None
            else Some (n (Z.rem a b))
  | BShl => if count_ok then Some (n (a * 2 ^ b)) else None
  | BShr => if count_ok then Some (n (a / 2 ^ b)) else None
  | BAnd => Some (n (Z.land a b))
  | BOr => Some (n (Z.lor a b))
  | BXor => Some (n (Z.lxor a b))
  end.
Definition compare (o : ccmp) (a b : Z) : bool :=
  match o with
  | KEq => a =? b | KNe => negb (a =? b) | KLt => a <? b | KLe => a <=? b
  | KGt => b <? a | KGe => b <=? a
  end.
Definition b2z (b : bool) : Z := if b then 1 else 0.

Fixpoint eval (w : Z) (env : list Z) (e : cexpr) : option Z :=
  match e with
  | ELit z => if (0 <=? z) && (z <? 2 ^ (w - 1)) then Some z else None
  | EBool b => Some (b2z b)
  | EVar t n => match nth_error env n with
                | Some z => if in_range w t z then Some z else None
                | None => None end
  | EBin o a b =>
      match typeof a, typeof b with
      | Some ta, Some tb =>
          match common ta tb, eval w env a, eval w env b with
          | Some t, Some x, Some y => arith (bits_of w t) (signed_of t) o x y
          | _, _, _ => None
          end
      | _, _ => None
      end
  | ENeg a => match typeof e, eval w env a with
              | Some t, Some x => Some (normt w t (- x)) | _, _ => None end
  | ECast t a => match typeof e, eval w env a with
                 | Some _, Some x => Some (normt w t x) | _, _ => None end
  | ECmp o a b => match typeof e, eval w env a, eval w env b with
                  | Some _, Some x, Some y => Some (b2z (compare o x y)) | _, _, _ => None end
  | EAnd a b => match typeof e, eval w env a with
                | Some _, Some x => if x =? 0 then Some 0 else eval w env b
                | _, _ => None end
  | EOr a b => match typeof e, eval w env a with
               | Some _, Some x => if x =? 0 then eval w env b else Some 1
               | _, _ => None end
  | ENot a => match typeof e, eval w env a with
              | Some _, Some x => Some (1 - x) | _, _ => None end
  end.
