(* Spec/RV32Exec.v — shared reference for C05/C07: execution semantics of the RV32I base integer
   instruction set and the M extension, written from the RISC-V Unprivileged ISA manual
   (volume I: chapter 2 "RV32I Base Integer Instruction Set", chapter 7 "M Standard Extension";
   division by zero / signed overflow results of table 7.1).  Independent of ppci: the input is
   the decoded instruction (mnemonic, operands in assembly order) produced by Spec/RV32Decode.v.

   state    = 32 integer registers (x0 reads as zero, writes to x0 are dropped), pc, byte memory
              indexed by 32-bit addresses (little-endian accesses, addresses wrap modulo 2^32).
   All register values and pc are taken modulo 2^32 (unsigned representative); [s32] gives the
   two's complement reading.  No traps are modelled: misaligned accesses proceed bytewise,
   ecall/ebreak/fence/CSR instructions are outside [rvinstr] ([of_decoded] = None).
   Definitions only; tools/rv32_py.py is the Python twin used as search oracle. *)
From Coq Require Import ZArith List String Bool.
From PV Require Import Spec.RV32Decode.
Import ListNotations.
Open Scope Z_scope.

Definition W32 : Z := 4294967296.
Definition u32 (z : Z) : Z := z mod W32.
Definition s32 (z : Z) : Z := let u := z mod W32 in if u <? 2147483648 then u else u - W32.

Inductive bcond := BEQ | BNE | BLT | BGE | BLTU | BGEU.
Inductive lkind := LB | LH | LW | LBU | LHU.
Inductive skind := SB | SH | SW.
Inductive iop := IADDI | ISLTI | ISLTIU | IXORI | IORI | IANDI | ISLLI | ISRLI | ISRAI.
Inductive rop := RADD | RSUB | RSLL | RSLT | RSLTU | RXOR | RSRL | RSRA | ROR | RAND
               | RMUL | RMULH | RMULHSU | RMULHU | RDIV | RDIVU | RREM | RREMU.

Inductive rvinstr :=
  | RLui (rd imm20 : Z)
  | RAuipc (rd imm20 : Z)
  | RJal (rd off : Z)
  | RJalr (rd rs1 imm : Z)
  | RBranch (c : bcond) (rs1 rs2 off : Z)
  | RLoad (k : lkind) (rd imm rs1 : Z)
  | RStore (k : skind) (rs2 imm rs1 : Z)
  | ROpImm (o : iop) (rd rs1 imm : Z)
  | ROp (o : rop) (rd rs1 rs2 : Z).

(* ---- decoded (mnemonic, operand list) -> typed instruction ---- *)
Inductive fmt := FU (lui : bool) | FJal | FJalr | FB (c : bcond) | FL (k : lkind) | FS (k : skind)
               | FI (o : iop) | FR (o : rop).

Definition rv_formats : list (string * fmt) :=
  [("lui", FU true); ("auipc", FU false); ("jal", FJal); ("jalr", FJalr);
   ("beq", FB BEQ); ("bne", FB BNE); ("blt", FB BLT); ("bge", FB BGE); ("bltu", FB BLTU); ("bgeu", FB BGEU);
   ("lb", FL LB); ("lh", FL LH); ("lw", FL LW); ("lbu", FL LBU); ("lhu", FL LHU);
   ("sb", FS SB); ("sh", FS SH); ("sw", FS SW);
   ("addi", FI IADDI); ("slti", FI ISLTI); ("sltiu", FI ISLTIU); ("xori", FI IXORI); ("ori", FI IORI);
   ("andi", FI IANDI); ("slli", FI ISLLI); ("srli", FI ISRLI); ("srai", FI ISRAI);
   ("add", FR RADD); ("sub", FR RSUB); ("sll", FR RSLL); ("slt", FR RSLT); ("sltu", FR RSLTU);
   ("xor", FR RXOR); ("srl", FR RSRL); ("sra", FR RSRA); ("or", FR ROR); ("and", FR RAND);
   ("mul", FR RMUL); ("mulh", FR RMULH); ("mulhsu", FR RMULHSU); ("mulhu", FR RMULHU);
   ("div", FR RDIV); ("divu", FR RDIVU); ("rem", FR RREM); ("remu", FR RREMU)]%string.

Fixpoint assoc_fmt (l : list (string * fmt)) (mn : string) : option fmt :=
  match l with
  | [] => None
  | (k, f) :: r => if String.eqb k mn then Some f else assoc_fmt r mn
  end.

(* operand order = the order RV32Decode.decode_word returns *)
Definition build (f : fmt) (args : list Z) : option rvinstr :=
  match f, args with
  | FU true, [rd; imm] => Some (RLui rd imm)
  | FU false, [rd; imm] => Some (RAuipc rd imm)
  | FJal, [rd; off] => Some (RJal rd off)
  | FJalr, [rd; rs1; imm] => Some (RJalr rd rs1 imm)
  | FB c, [rs1; rs2; off] => Some (RBranch c rs1 rs2 off)
  | FL k, [rd; imm; rs1] => Some (RLoad k rd imm rs1)
  | FS k, [rs2; imm; rs1] => Some (RStore k rs2 imm rs1)
  | FI o, [rd; rs1; imm] => Some (ROpImm o rd rs1 imm)
  | FR o, [rd; rs1; rs2] => Some (ROp o rd rs1 rs2)
  | _, _ => None
  end.

Definition of_decoded (d : string * list Z) : option rvinstr :=
  match assoc_fmt rv_formats (fst d) with
  | Some f => build f (snd d)
  | None => None
  end.

Definition decode_instr (bytes : list Z) : option rvinstr :=
  match RV32Decode.decode bytes with
  | Some d => of_decoded d
  | None => None
  end.

(* ---- machine state ---- *)
Record state := mkSt { regs : Z -> Z; pc : Z; mem : Z -> Z }.

Definition getreg (s : state) (r : Z) : Z := if r =? 0 then 0 else u32 (regs s r).
Definition setreg (s : state) (r v : Z) : state :=
  if r =? 0 then s
  else mkSt (fun x => if x =? r then u32 v else regs s x) (pc s) (mem s).
Definition setpc (s : state) (p : Z) : state := mkSt (regs s) (u32 p) (mem s).
Definition getpc (s : state) : Z := u32 (pc s).

Definition loadbyte (s : state) (a : Z) : Z := mem s (u32 a) mod 256.
Definition storebyte (s : state) (a v : Z) : state :=
  mkSt (regs s) (pc s) (fun x => if x =? u32 a then v mod 256 else mem s x).

Fixpoint load_le (s : state) (n : nat) (a : Z) : Z :=
  match n with
  | O => 0
  | S n' => loadbyte s a + 256 * load_le s n' (a + 1)
  end.
Fixpoint store_le (s : state) (n : nat) (a v : Z) : state :=
  match n with
  | O => s
  | S n' => store_le (storebyte s a v) n' (a + 1) (v / 256)
  end.

(* ---- arithmetic (operands a b are register values, 0 <= . < 2^32) ---- *)
Definition b2z (b : bool) : Z := if b then 1 else 0.
Definition div_overflow (a b : Z) : bool := (s32 a =? -2147483648) && (s32 b =? -1).

Definition alu_r (o : rop) (a b : Z) : Z :=
  match o with
  | RADD => u32 (a + b)
  | RSUB => u32 (a - b)
  | RSLL => u32 (a * 2 ^ (b mod 32))
  | RSLT => b2z (s32 a <? s32 b)
  | RSLTU => b2z (a <? b)
  | RXOR => Z.lxor a b
  | RSRL => a / 2 ^ (b mod 32)
  | RSRA => u32 (s32 a / 2 ^ (b mod 32))
  | ROR => Z.lor a b
  | RAND => Z.land a b
  | RMUL => u32 (a * b)
  | RMULH => u32 ((s32 a * s32 b) / W32)
  | RMULHSU => u32 ((s32 a * b) / W32)
  | RMULHU => (a * b) / W32
  | RDIV => if b =? 0 then W32 - 1
            else if div_overflow a b then 2147483648
            else u32 (Z.quot (s32 a) (s32 b))
  | RDIVU => if b =? 0 then W32 - 1 else a / b
  | RREM => if b =? 0 then a
            else if div_overflow a b then 0
            else u32 (Z.rem (s32 a) (s32 b))
  | RREMU => if b =? 0 then a else a mod b
  end.

(* imm: the sign-extended 12-bit immediate (shifts: shamt 0..31) as the decoder returns it *)
Definition alu_i (o : iop) (a imm : Z) : Z :=
  match o with
  | IADDI => u32 (a + imm)
  | ISLTI => b2z (s32 a <? imm)
  | ISLTIU => b2z (a <? u32 imm)
  | IXORI => Z.lxor a (u32 imm)
  | IORI => Z.lor a (u32 imm)
  | IANDI => Z.land a (u32 imm)
  | ISLLI => u32 (a * 2 ^ (imm mod 32))
  | ISRLI => a / 2 ^ (imm mod 32)
  | ISRAI => u32 (s32 a / 2 ^ (imm mod 32))
  end.

Definition branch_taken (c : bcond) (a b : Z) : bool :=
  match c with
  | BEQ => a =? b
  | BNE => negb (a =? b)
  | BLT => s32 a <? s32 b
  | BGE => negb (s32 a <? s32 b)
  | BLTU => a <? b
  | BGEU => negb (a <? b)
  end.

Definition load_value (s : state) (k : lkind) (a : Z) : Z :=
  match k with
  | LB => sext 8 (load_le s 1 a)
  | LH => sext 16 (load_le s 2 a)
  | LW => load_le s 4 a
  | LBU => load_le s 1 a
  | LHU => load_le s 2 a
  end.

Definition store_width (k : skind) : nat := match k with SB => 1 | SH => 2 | SW => 4 end%nat.

Definition exec (i : rvinstr) (s : state) : state :=
  let next := getpc s + 4 in
  match i with
  | RLui rd imm => setpc (setreg s rd (imm * 4096)) next
  | RAuipc rd imm => setpc (setreg s rd (getpc s + imm * 4096)) next
  | RJal rd off => setpc (setreg s rd next) (getpc s + off)
  | RJalr rd rs1 imm =>
      let t := u32 (getreg s rs1 + imm) in
      setpc (setreg s rd next) (t - t mod 2)
  | RBranch c rs1 rs2 off =>
      if branch_taken c (getreg s rs1) (getreg s rs2) then setpc s (getpc s + off) else setpc s next
  | RLoad k rd imm rs1 =>
      setpc (setreg s rd (load_value s k (getreg s rs1 + imm))) next
  | RStore k rs2 imm rs1 =>
      setpc (store_le s (store_width k) (getreg s rs1 + imm) (getreg s rs2)) next
  | ROpImm o rd rs1 imm => setpc (setreg s rd (alu_i o (getreg s rs1) imm)) next
  | ROp o rd rs1 rs2 => setpc (setreg s rd (alu_r o (getreg s rs1) (getreg s rs2))) next
  end.

(* straight-line execution (the instruction list is given; fetch is not modelled) *)
Fixpoint exec_seq (l : list rvinstr) (s : state) : state :=
  match l with
  | [] => s
  | i :: r => exec_seq r (exec i s)
  end.
