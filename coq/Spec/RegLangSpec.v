(* Spec/RegLangSpec.v — property C31: regular expressions and their languages.
   Independent mathematical definition: the abstract syntax of ppci/lang/tools/regex/regex.py
   (Epsilon, SymbolSet, Kleene, Concatenation, LogicalOr, LogicalAnd) and the usual
   denotation  L : re -> list Z -> Prop  (words are lists of code points).
   The second half is the reference grammar of the concrete syntax: a concrete syntax tree
   whose shape *is* the grammar (alternation < concatenation < postfix < atom), its printer
   [unparse] and its meaning [L_alt] given directly as a language (no ppci structure). *)
From Coq Require Import ZArith List.
Import ListNotations.
Open Scope Z_scope.

(* a symbol set is given by a list of closed intervals *)
Definition ranges := list (Z * Z).
Definition in_ranges (c : Z) (s : ranges) : Prop :=
  exists a b, In (a, b) s /\ a <= c <= b.

Inductive re :=
  | Eps                      (* Epsilon *)
  | Sym (s : ranges)         (* SymbolSet; NULL = Sym [] *)
  | Star (r : re)            (* Kleene *)
  | Cat (a b : re)           (* Concatenation *)
  | Or (a b : re)            (* LogicalOr *)
  | And (a b : re).          (* LogicalAnd *)

Inductive star (P : list Z -> Prop) : list Z -> Prop :=
  | star_nil : star P []
  | star_app u v : P u -> star P v -> star P (u ++ v).

Fixpoint L (r : re) (w : list Z) : Prop :=
  match r with
  | Eps => w = []
  | Sym s => exists c, w = [c] /\ in_ranges c s
  | Star a => star (L a) w
  | Cat a b => exists u v, w = u ++ v /\ L a u /\ L b v
  | Or a b => L a w \/ L b w
  | And a b => L a w /\ L b w
  end.

(* the alphabet of the automata: SIGMA = SymbolSet([(0, 255)]) *)
Definition in_sigma (c : Z) : Prop := 0 <= c <= 255.

(* ------------------------------------------------------------------ concrete syntax *)
(*   alt  ::= seq ('|' seq)*          alternation binds weakest
     seq  ::= elem*                    (the empty sequence denotes the empty word)
     elem ::= atom | atom '*' | atom '+' | atom '?'
     atom ::= c | '\' c | '.' | '(' alt ')' | '[' item+ ']'
     item ::= c | c '-' d   (c < d)
   A plain literal c is any code point other than  ( ) [ . | \ * + ?            *)
Definition ch_lpar := 40.  Definition ch_rpar := 41.  Definition ch_star := 42.
Definition ch_plus := 43.  Definition ch_minus := 45. Definition ch_dot := 46.
Definition ch_qmark := 63. Definition ch_lbrack := 91. Definition ch_bslash := 92.
Definition ch_rbrack := 93. Definition ch_caret := 94. Definition ch_bar := 124.

Definition plain_lit (c : Z) : Prop :=
  c <> ch_lpar /\ c <> ch_rpar /\ c <> ch_lbrack /\ c <> ch_dot /\ c <> ch_bar /\
  c <> ch_bslash /\ c <> ch_star /\ c <> ch_plus /\ c <> ch_qmark.

Inductive modifier := MNone | MStar | MPlus | MOpt.

(* class items: a single code point or a range c-d; inside brackets a plain item
   character is anything except  ] \ - ^ *)
Inductive item := ISingle (c : Z) | IRange (c d : Z).
Definition class_lit (c : Z) : Prop :=
  c <> ch_rbrack /\ c <> ch_bslash /\ c <> ch_minus /\ c <> ch_caret.
Definition unparse_item (i : item) : list Z :=
  match i with ISingle c => [c] | IRange c d => [c; ch_minus; d] end.
Definition wf_item (i : item) : Prop :=
  match i with ISingle c => class_lit c | IRange c d => class_lit c /\ class_lit d /\ c < d end.
Definition in_item (x : Z) (i : item) : Prop :=
  match i with ISingle c => x = c | IRange c d => c <= x <= d end.

Inductive atom :=
  | ALit (c : Z)             (* requires plain_lit c, see wf_* below *)
  | AEsc (c : Z)             (* backslash c : the literal c, whatever it is *)
  | ADot
  | AClass (items : list item)   (* non-empty, see wf *)
  | AGroup (a : alt)
with elem := Elem (a : atom) (m : modifier)
with seq := SNil | SCons (e : elem) (s : seq)
with alt := AltOne (s : seq) | AltCons (s : seq) (a : alt).

Fixpoint unparse_atom (a : atom) : list Z :=
  match a with
  | ALit c => [c]
  | AEsc c => [ch_bslash; c]
  | ADot => [ch_dot]
  | AClass items => [ch_lbrack] ++ flat_map unparse_item items ++ [ch_rbrack]
  | AGroup a => [ch_lpar] ++ unparse_alt a ++ [ch_rpar]
  end
with unparse_elem (e : elem) : list Z :=
  match e with
  | Elem a m => unparse_atom a ++
      match m with MNone => [] | MStar => [ch_star] | MPlus => [ch_plus] | MOpt => [ch_qmark] end
  end
with unparse_seq (s : seq) : list Z :=
  match s with SNil => [] | SCons e s' => unparse_elem e ++ unparse_seq s' end
with unparse_alt (a : alt) : list Z :=
  match a with
  | AltOne s => unparse_seq s
  | AltCons s a' => unparse_seq s ++ [ch_bar] ++ unparse_alt a'
  end.

(* well-formed trees: plain literals are really plain *)
Fixpoint wf_atom (a : atom) : Prop :=
  match a with
  | ALit c => plain_lit c
  | AEsc _ => True
  | ADot => True
  | AClass items => items <> [] /\ Forall wf_item items
  | AGroup a => wf_alt a
  end
with wf_elem (e : elem) : Prop := match e with Elem a _ => wf_atom a end
with wf_seq (s : seq) : Prop := match s with SNil => True | SCons e s' => wf_elem e /\ wf_seq s' end
with wf_alt (a : alt) : Prop :=
  match a with AltOne s => wf_seq s | AltCons s a' => wf_seq s /\ wf_alt a' end.

(* meaning of a concrete syntax tree: a language, defined directly *)
Fixpoint L_atom (a : atom) (w : list Z) : Prop :=
  match a with
  | ALit c => w = [c]
  | AEsc c => w = [c]
  | ADot => exists c, w = [c] /\ in_sigma c
  | AClass items => exists c, w = [c] /\ Exists (in_item c) items
  | AGroup a => L_alt a w
  end
with L_elem (e : elem) (w : list Z) : Prop :=
  match e with
  | Elem a MNone => L_atom a w
  | Elem a MStar => star (L_atom a) w
  | Elem a MPlus => exists u v, w = u ++ v /\ L_atom a u /\ star (L_atom a) v
  | Elem a MOpt => L_atom a w \/ w = []
  end
with L_seq (s : seq) (w : list Z) : Prop :=
  match s with
  | SNil => w = []
  | SCons e s' => exists u v, w = u ++ v /\ L_elem e u /\ L_seq s' v
  end
with L_alt (a : alt) (w : list Z) : Prop :=
  match a with
  | AltOne s => L_seq s w
  | AltCons s a' => L_seq s w \/ L_alt a' w
  end.

(* ------------------------------------------------------------------ maximal munch *)
(* [munch P text toks]: toks splits text into tokens, each one the LONGEST non-empty prefix of
   the remaining text that belongs to P *)
Inductive munch (P : list Z -> Prop) : list Z -> list (list Z) -> Prop :=
  | munch_nil : munch P [] []
  | munch_cons w rest toks :
      w <> [] -> P w ->
      (forall x y, rest = x ++ y -> x <> [] -> ~ P (w ++ x)) ->
      munch P rest toks -> munch P (w ++ rest) (w :: toks).
