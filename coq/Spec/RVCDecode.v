(* Spec/RVCDecode.v — C08 reference, part 3: a decoder for the RV32C compressed instructions written from the
   RISC-V manual ("C" standard extension: formats CR/CI/CSS/CIW/CL/CS/CA/CB/CJ, instruction listings of the three
   quadrants, register-prime encoding x8..x15).  Independent of ppci.  Integer subset only (no compressed floating-point loads/stores).
   Operands are returned in assembly order; the two-address forms whose expansion repeats rd
   (c.addi/c.slli/c.srli/c.srai/c.andi expand to  op rd, rd, imm) are returned with both registers, e.g.
   ("c.srli", [rd'; rd'; shamt]).  Immediates are byte offsets / values as written in assembly; c.lui returns the
   6-bit field nzimm[17:12]; c.nop is c.addi x0, x0, 0.  HINT and reserved encodings are decoded structurally. *)
From Coq Require Import ZArith List String.
From PV Require Import Spec.RV32Decode.
Import ListNotations.
Open Scope string_scope.
Open Scope Z_scope.

Definition rprime (x : Z) : Z := 8 + x.                (* 3-bit register field -> x8..x15 *)

Definition decode16_word (w : Z) : option (string * list Z) :=
  let op := bits w 0 2 in
  let funct3 := bits w 13 3 in
  let rd := bits w 7 5 in                              (* rd / rs1, full register *)
  let rs2 := bits w 2 5 in
  let rdp := rprime (bits w 2 3) in                    (* rd' / rs2' *)
  let rs1p := rprime (bits w 7 3) in                   (* rs1' / rd' of CB, CA *)
  let b12 := bits w 12 1 in
  let uimm6 := b12 * 32 + bits w 2 5 in
  let imm6 := sext 6 uimm6 in
  (* CL/CS: uimm[5:3] = inst[12:10], uimm[2] = inst[6], uimm[6] = inst[5] *)
  let off_lw := bits w 10 3 * 8 + bits w 6 1 * 4 + bits w 5 1 * 64 in
  (* CJ: imm[11|4|9:8|10|6|7|3:1|5] = inst[12|11|10:9|8|7|6|5:3|2] *)
  let off_j := sext 12 (b12 * 2048 + bits w 11 1 * 16 + bits w 9 2 * 256 + bits w 8 1 * 1024 + bits w 7 1 * 64 +
                        bits w 6 1 * 128 + bits w 3 3 * 2 + bits w 2 1 * 32) in
  (* CB branches: imm[8|4:3] = inst[12|11:10], imm[7:6|2:1|5] = inst[6:5|4:3|2] *)
  let off_b := sext 9 (b12 * 256 + bits w 10 2 * 8 + bits w 5 2 * 64 + bits w 3 2 * 2 + bits w 2 1 * 32) in
  match op, funct3 with
  | 0, 0 => (* CIW c.addi4spn: nzuimm[5:4|9:6|2|3] = inst[12:11|10:7|6|5] *)
      Some ("c.addi4spn", [rdp; bits w 11 2 * 16 + bits w 7 4 * 64 + bits w 6 1 * 4 + bits w 5 1 * 8])
  | 0, 2 => Some ("c.lw", [rdp; off_lw; rs1p])
  | 0, 6 => Some ("c.sw", [rdp; off_lw; rs1p])
  | 1, 0 => Some ("c.addi", [rd; rd; imm6])
  | 1, 1 => Some ("c.jal", [off_j])
  | 1, 2 => Some ("c.li", [rd; imm6])
  | 1, 3 =>
      if rd =? 2
      then (* c.addi16sp: nzimm[9] = inst[12], nzimm[4|6|8:7|5] = inst[6|5|4:3|2] *)
           Some ("c.addi16sp", [sext 10 (b12 * 512 + bits w 6 1 * 16 + bits w 5 1 * 64 + bits w 3 2 * 128 + bits w 2 1 * 32)])
      else Some ("c.lui", [rd; uimm6])
  | 1, 4 =>
      match bits w 10 2 with
      | 0 => Some ("c.srli", [rs1p; rs1p; uimm6])
      | 1 => Some ("c.srai", [rs1p; rs1p; uimm6])
      | 2 => Some ("c.andi", [rs1p; rs1p; imm6])
      | _ =>
          if b12 =? 0 then
            match bits w 5 2 with
            | 0 => Some ("c.sub", [rs1p; rdp]) | 1 => Some ("c.xor", [rs1p; rdp])
            | 2 => Some ("c.or", [rs1p; rdp]) | _ => Some ("c.and", [rs1p; rdp])
            end
          else None
      end
  | 1, 5 => Some ("c.j", [off_j])
  | 1, 6 => Some ("c.beqz", [rs1p; off_b])
  | 1, 7 => Some ("c.bnez", [rs1p; off_b])
  | 2, 0 => Some ("c.slli", [rd; rd; uimm6])
  | 2, 2 => (* CI c.lwsp: uimm[5] = inst[12], uimm[4:2|7:6] = inst[6:4|3:2] *)
      Some ("c.lwsp", [rd; b12 * 32 + bits w 4 3 * 4 + bits w 2 2 * 64])
  | 2, 4 =>
      if b12 =? 0
      then if rs2 =? 0 then Some ("c.jr", [rd]) else Some ("c.mv", [rd; rs2])
      else if rs2 =? 0 then (if rd =? 0 then Some ("c.ebreak", []) else Some ("c.jalr", [rd]))
           else Some ("c.add", [rd; rs2])
  | 2, 6 => (* CSS c.swsp: uimm[5:2|7:6] = inst[12:9|8:7] *)
      Some ("c.swsp", [rs2; bits w 9 4 * 4 + bits w 7 2 * 64])
  | _, _ => None
  end.

Definition decode16 (bytes : list Z) : option (string * list Z) :=
  match bytes with
  | [b0; b1] => decode16_word (b0 + 256 * b1)
  | _ => None
  end.

(* what ppci's printed form of an RVC class means (printed mnemonic, number of operands) *)
Definition rvc_expect (mn : string) (nops : nat) : option (string * list vsel) :=
  let is x := String.eqb mn x in
  let any l := existsb is l in
  match nops with
  | 0%nat => if is "c.nop" then Some ("c.addi", [VConst 0; VConst 0; VConst 0])
             else if is "c.ebreak" then Some (mn, []) else None
  | 1%nat => if any ["c.jal"; "c.j"; "c.jr"; "c.jalr"] then Some (mn, [VOp 0])
             else if is "c.addi16sp" then Some (mn, [VSext 10 0]) else None
  | 2%nat => if any ["c.mv"; "c.lwsp"; "c.swsp"; "c.lui"; "c.sub"; "c.xor"; "c.or"; "c.and"; "c.beqz"; "c.addi4spn"]
             then Some (mn, [VOp 0; VOp 1])
             else if is "c.bneqz" then Some ("c.bnez", [VOp 0; VOp 1])      (* ppci spells c.bnez "c.bneqz" *)
             else if is "c.li" then Some (mn, [VOp 0; VSext 6 1]) else None
  | 3%nat => if any ["c.slli"; "c.srli"; "c.srai"; "c.lw"; "c.sw"] then Some (mn, [VOp 0; VOp 1; VOp 2])
             else if is "c.andi" then Some (mn, [VOp 0; VOp 1; VSext 6 2])
             else if is "c.addi" then Some (mn, [VOp 1; VOp 1; VSext 6 2])    (* printed  c.addi rd, rd, imm *)
             else None
  | _ => None
  end.

(* architectural side conditions of the reference instruction (manual: c.mv needs rs2 <> x0, c.jr/c.jalr need
   rs1 <> x0, c.lui needs rd not in {x0, x2}); outside them the same bits are another instruction *)
Definition rvc_valid (mn : string) (args : list Z) : bool :=
  if String.eqb mn "c.mv" then negb (nth 1 args 0 =? 0)
  else if orb (String.eqb mn "c.jalr") (String.eqb mn "c.jr") then negb (nth 0 args 0 =? 0)
  else if String.eqb mn "c.lui" then andb (negb (nth 0 args 0 =? 0)) (negb (nth 0 args 0 =? 2))
  else true.
