(* Spec/BuildSpec.v — what a build runner owes its caller (property C34).
   Independent of ppci's structure: a dependency graph, reachability, cycles, and the three
   requirements on an execution history.  No algorithm here. *)
From Coq Require Import ZArith List Bool.
Import ListNotations.
Open Scope Z_scope.

Definition name := Z.                        (* target names; only equality is ever used *)
Definition graph := list (name * list name). (* finite map: target -> its dependencies *)

(* first binding wins (a Python dict has one binding per key) *)
Fixpoint lookup (g : graph) (n : name) : option (list name) :=
  match g with
  | [] => None
  | (k, ds) :: r => if k =? n then Some ds else lookup r n
  end.

(* a depends directly on b *)
Definition edge (g : graph) (a b : name) : Prop :=
  exists ds, lookup g a = Some ds /\ In b ds.

(* non-empty dependency path *)
Inductive path (g : graph) : name -> name -> Prop :=
  | path_one a b : edge g a b -> path g a b
  | path_step a b c : edge g a b -> path g b c -> path g a c.

(* n is a requested target or a transitive dependency of one *)
Definition reach (g : graph) (req : list name) (n : name) : Prop :=
  exists r, In r req /\ (n = r \/ path g r n).

(* the part of the graph reachable from the request contains a cycle / an undefined target *)
Definition has_cycle (g : graph) (req : list name) : Prop :=
  exists n, reach g req n /\ path g n n.
Definition has_missing (g : graph) (req : list name) : Prop :=
  exists n, reach g req n /\ lookup g n = None.
Definition bad (g : graph) (req : list name) : Prop := has_cycle g req \/ has_missing g req.

(* b is executed strictly earlier than a in history h *)
Definition before (h : list name) (b a : name) : Prop :=
  exists l1 l2, h = l1 ++ a :: l2 /\ In b l1.

(* (2a) nothing runs twice *)
Definition once (h : list name) : Prop := NoDup h.
(* (2b) exactly the requested targets and their transitive dependencies run *)
Definition exactly_reachable (g : graph) (req h : list name) : Prop :=
  forall n, In n h <-> reach g req n.
(* (2c) every target runs after all of its dependencies *)
Definition topological (g : graph) (h : list name) : Prop :=
  forall a b, In a h -> edge g a b -> before h b a.
