(* Spec/BitsSpec.v — mathematical definitions of the bit helpers (C39), independent of ppci.
   Bits are addressed with Z.testbit (two's complement for negative numbers). *)
From PV Require Import Lib.Py.
Open Scope Z_scope.

(* r is the n-bit value whose bit i is (f i), for 0 <= i < n *)
Definition bits_are (n r : Z) (f : Z -> bool) : Prop :=
  0 <= r < 2 ^ n /\ forall i, 0 <= i < n -> Z.testbit r i = f i.

(* rotate left by c within n bits: bit i of the result is bit (i - c) mod n of v *)
Definition is_rotl (n v c r : Z) : Prop := bits_are n r (fun i => Z.testbit v ((i - c) mod n)).
Definition is_rotr (n v c r : Z) : Prop := bits_are n r (fun i => Z.testbit v ((i + c) mod n)).
Definition is_reverse (n v r : Z) : Prop := bits_are n r (fun i => Z.testbit v (n - 1 - i)).

(* two's complement *)
Definition unsigned_of (n v : Z) : Z := v mod 2 ^ n.
Definition signed_of (n v : Z) : Z := (v + 2 ^ (n - 1)) mod 2 ^ n - 2 ^ (n - 1).

(* number of set bits among bits 0 .. n-1 *)
Fixpoint popcount_nat (v : Z) (n : nat) : Z :=
  match n with O => 0 | S k => popcount_nat v k + b2z (Z.testbit v (Z.of_nat k)) end.
Definition popcount (n v : Z) : Z := popcount_nat v (Z.to_nat n).

(* leading / trailing zeros of an n-bit value *)
Definition is_clz (n v r : Z) : Prop :=
  0 <= r <= n /\ (forall i, n - r <= i < n -> Z.testbit v i = false) /\
  (r < n -> Z.testbit v (n - 1 - r) = true).
Definition is_ctz (n v r : Z) : Prop :=
  0 <= r <= n /\ (forall i, 0 <= i < r -> Z.testbit v i = false) /\
  (r < n -> Z.testbit v r = true).

(* ARM "modified immediate": an 8-bit value rotated right by an even amount within 32 bits *)
Definition ror32 (x c : Z) : Z := (x / 2 ^ c + (x mod 2 ^ c) * 2 ^ (32 - c)) mod 2 ^ 32.
Definition arm_imm_decode (x : Z) : Z := ror32 (x mod 256) (2 * (x / 256)).
Definition arm_imm_representable (v : Z) : Prop :=
  exists rot imm8, 0 <= rot < 16 /\ 0 <= imm8 < 256 /\ ror32 imm8 (2 * rot) = v.

(* bits_are determines r uniquely *)
Lemma bits_are_unique n r1 r2 f : 0 <= n -> bits_are n r1 f -> bits_are n r2 f -> r1 = r2.
Proof.
  intros Hn [[H1 H1'] B1] [[H2 H2'] B2]. apply Z.bits_inj'. intros i Hi.
  destruct (Z.lt_ge_cases i n).
  - rewrite B1, B2 by lia. reflexivity.
  - assert (E1 : Z.testbit r1 i = false).
    { destruct (Z.eq_dec r1 0) as [->|]; [apply Z.bits_0|].
      apply Z.bits_above_log2; [lia|]. assert (Z.log2 r1 < n) by (apply Z.log2_lt_pow2; lia). lia. }
    assert (E2 : Z.testbit r2 i = false).
    { destruct (Z.eq_dec r2 0) as [->|]; [apply Z.bits_0|].
      apply Z.bits_above_log2; [lia|]. assert (Z.log2 r2 < n) by (apply Z.log2_lt_pow2; lia). lia. }
    congruence.
Qed.

(* value of a big-endian base-256 digit string: first byte is the most significant *)
Fixpoint be_value (l : list Z) : Z :=
  match l with [] => 0 | d :: r => d * 256 ^ (Z.of_nat (length r)) + be_value r end.
(* l is THE big-endian representation of (v mod 256^n) on n bytes *)
Definition is_big_endian (n v : Z) (l : list Z) : Prop :=
  Z.of_nat (length l) = n /\ Forall (fun d => 0 <= d < 256) l /\ be_value l = v mod 256 ^ n.
