(* C29 — independent definition: tree grammars (BURG rule sets), covers, and regular tree languages.

   A selection tree is an operator name with children.  A BURG rule  nt <- pattern  rewrites a tree
   whose top matches the pattern (operator nodes must coincide, the open ends of the pattern are
   non-terminals that the corresponding subtrees must in turn derive) into the non-terminal nt.
   A chain rule is a rule whose whole pattern is a non-terminal.
   [covers rules t nt] : there is a finite derivation (a tiling of t by rule applications) of nt.
   This is what ppci's TreeSelector.burm_label computes bottom-up ("tree.state.has_goal(nt)"):
   selection of a tree succeeds iff it derives "stm".

   The second half defines the language of a regular tree grammar (sort <- op(sort,...,sort)), used to
   describe which trees the selection-graph builder can hand to the selector. *)
From Coq Require Import String List ZArith.
Import ListNotations.

Inductive tree : Type := T : string -> list tree -> tree.
Inductive pat : Type := PNt : string -> pat | POp : string -> list pat -> pat.

(* r_kind: 0 = no condition; 1 = has a `condition` predicate; 2 = has a condition that the table
   exporter evaluated to True on every in-range constant of the (8/16-bit) CONST leaf it guards *)
Record rule : Type := { r_idx : Z; r_nt : string; r_pat : pat; r_cost : Z; r_kind : Z }.

Section Cover.
  Variable rules : list rule.   (* the rules that may be used *)

  Inductive covers : tree -> string -> Prop :=
  | Cov : forall r t, In r rules -> pmatch t (r_pat r) -> covers t (r_nt r)
  with pmatch : tree -> pat -> Prop :=
  | PmNt : forall t n, covers t n -> pmatch t (PNt n)
  | PmOp : forall op kids ps, pmatch_list kids ps -> pmatch (T op kids) (POp op ps)
  with pmatch_list : list tree -> list pat -> Prop :=
  | PmNil : pmatch_list [] []
  | PmCons : forall t p ts ps, pmatch t p -> pmatch_list ts ps -> pmatch_list (t :: ts) (p :: ps).
End Cover.

(* regular tree grammar: production  sort <- op(args) *)
Record prod : Type := { p_sort : string; p_op : string; p_args : list string }.

Section Lang.
  Variable G : list prod.
  Inductive in_lang : string -> tree -> Prop :=
  | InL : forall p kids, In p G -> in_lang_list (p_args p) kids -> in_lang (p_sort p) (T (p_op p) kids)
  with in_lang_list : list string -> list tree -> Prop :=
  | InLNil : in_lang_list [] []
  | InLCons : forall s t ss ts, in_lang s t -> in_lang_list ss ts -> in_lang_list (s :: ss) (t :: ts).
End Lang.

Scheme covers_mut := Induction for covers Sort Prop
  with pmatch_mut := Induction for pmatch Sort Prop
  with pmatch_list_mut := Induction for pmatch_list Sort Prop.
Scheme in_lang_mut := Minimality for in_lang Sort Prop
  with in_lang_list_mut := Minimality for in_lang_list Sort Prop.
Combined Scheme in_lang_mutind from in_lang_mut, in_lang_list_mut.
