(* Spec/FieldSpec.v — what an instruction bit-field of width w represents (C10), independent of ppci. *)
From PV Require Import Lib.Py.
Open Scope Z_scope.

(* representable operand values of a field of width w *)
Definition fits (signed : bool) (w v : Z) : Prop :=
  if signed then - 2 ^ (w - 1) <= v < 2 ^ (w - 1) else 0 <= v < 2 ^ w.
Definition fitsb (signed : bool) (w v : Z) : bool :=
  if signed then (- 2 ^ (w - 1) <=? v) && (v <? 2 ^ (w - 1)) else (0 <=? v) && (v <? 2 ^ w).

(* reading back the w stored bits t (0 <= t < 2^w) *)
Definition decode_unsigned (w t : Z) : Z := t mod 2 ^ w.
Definition decode_signed (w t : Z) : Z := (t + 2 ^ (w - 1)) mod 2 ^ w - 2 ^ (w - 1).
Definition decode (signed : bool) (w t : Z) : Z :=
  if signed then decode_signed w t else decode_unsigned w t.

Lemma fitsb_spec s w v : fitsb s w v = true <-> fits s w v.
Proof. unfold fitsb, fits. destruct s; lia. Qed.
