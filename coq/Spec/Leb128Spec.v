(* Spec/Leb128Spec.v — LEB128 as defined by DWARF (7.6 "Variable Length Data") and the
   WebAssembly binary format; independent of ppci.

   An encoding is a non-empty byte sequence b0 .. bn.  Every byte carries a 7-bit group
   (bits 0..6) and a continuation flag (bit 7) that is set exactly on the non-final bytes.
   Groups are little-endian: the unsigned value is  sum_i (bi mod 128) * 128^i ;
   the signed value is that number sign-extended from bit 7(n+1)-1 (bit 6 of the last byte).
   The canonical encoding is the shortest one:
     unsigned — the final group is non-zero unless the encoding is a single byte;
     signed   — the final group is not a pure sign extension of the previous group, i.e. it is
                not 0x00 after a group whose bit 6 is clear, nor 0x7f after a group whose bit 6
                is set. *)
From PV Require Import Lib.Py.
Open Scope Z_scope.

(* bytes in 0..255; continuation bit exactly on the non-final bytes; at least one byte *)
Fixpoint wf_leb (l : list Z) : Prop :=
  match l with
  | [] => False
  | b :: r => match r with
              | [] => 0 <= b < 128
              | _ :: _ => 128 <= b < 256 /\ wf_leb r
              end
  end.

(* little-endian concatenation of the 7-bit groups *)
Fixpoint groups_value (l : list Z) : Z :=
  match l with
  | [] => 0
  | b :: r => b mod 128 + 128 * groups_value r
  end.

Definition uleb_value (l : list Z) : Z := groups_value l.

(* sign extension from the top bit of the last group *)
Definition sleb_value (l : list Z) : Z :=
  let n := 7 * len l in
  let u := groups_value l in
  if Z.testbit u (n - 1) then u - 2 ^ n else u.

Definition u_minimal (l : list Z) : Prop := length l = 1%nat \/ last l 0 <> 0.

Fixpoint s_minimal (l : list Z) : Prop :=
  match l with
  | b :: r =>
      match r with
      | [] => True
      | c :: r' =>
          match r' with
          | [] => ~ (c = 0 /\ b mod 128 < 64) /\ ~ (c = 127 /\ 64 <= b mod 128)
          | _ :: _ => s_minimal r
          end
      end
  | [] => True
  end.

(* l is THE canonical unsigned / signed LEB128 encoding of v *)
Definition is_uleb (v : Z) (l : list Z) : Prop := wf_leb l /\ uleb_value l = v /\ u_minimal l.
Definition is_sleb (v : Z) (l : list Z) : Prop := wf_leb l /\ sleb_value l = v /\ s_minimal l.

(* sanity: the worked examples of the DWARF specification / Wikipedia *)
Ltac leb_example :=
  unfold is_uleb, is_sleb, uleb_value, sleb_value, u_minimal;
  repeat match goal with
         | |- _ /\ _ => split
         | |- wf_leb _ => cbn; lia
         | |- s_minimal _ => cbn; lia
         | |- _ \/ _ => first [left; reflexivity | right; cbn; lia]
         | |- _ = _ => vm_compute; reflexivity
         end.
Example uleb_624485 : is_uleb 624485 [0xE5; 0x8E; 0x26] /\ is_uleb 0 [0] /\ is_uleb 128 [0x80; 1].
Proof. leb_example. Qed.
Example sleb_m123456 : is_sleb (-123456) [0xC0; 0xBB; 0x78].
Proof. leb_example. Qed.
Example sleb_boundaries : is_sleb (-128) [0x80; 0x7F] /\ is_sleb 128 [0x80; 0x01] /\
  is_sleb 63 [0x3F] /\ is_sleb 64 [0xC0; 0x00] /\ is_sleb (-64) [0x40] /\ is_sleb (-65) [0xBF; 0x7F].
Proof. leb_example. Qed.
(* non-minimal encodings are rejected *)
Example not_minimal : ~ is_uleb 1 [0x81; 0x00] /\ ~ is_sleb 1 [0x81; 0x00] /\ ~ is_sleb (-1) [0xFF; 0x7F].
Proof. repeat split; intros (_ & _ & H); cbn in H; try lia. destruct H as [H|H]; [discriminate|apply H; reflexivity]. Qed.
