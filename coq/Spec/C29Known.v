(* C29 — the region outside the positive theorems (hand-written; part of the statement).

   excl_<target>   : selection-tree operators for which the target has NO usable rule at all (every one is a
                     known finding: tools/props/c29.py re-executes a one-instruction IR function through
                     ppci.api.ir_to_object on every run and still sees "Tree ... not covered").  Their
                     productions are removed from the language of the positive theorem.
   assume_<target> : conditional leaf rules (non-terminal, pattern) assumed to fire, i.e. a restriction on the
                     VALUE of that leaf:
                       arm    reg <- CONSTI8   condition value in range(256): i8 constants are >= 0
                              (a negative i8 constant is uncovered: known finding)
                       riscv  reg <- FPRELU32  condition offset in range(-2048, 2048): the frame is < 2 KiB
                              (a bigger frame is uncovered: known finding)
   A new uncovered operator (e.g. a deleted pattern) is NOT in these lists and makes closure_ok false. *)
From Coq Require Import String List.
From PV Require Import Spec.BurgCoverSpec.
Import ListNotations.
Local Open Scope string_scope.

Definition excl_x86_64 : list string :=
  ["F64TOF64"; "I16TOF64"; "I8TOF64"; "U16TOF64"; "U8TOF64"; "F32TOF32"; "I16TOF32"; "I8TOF32";
   "U16TOF32"; "U8TOF32"; "MULI16"; "REMI16"; "F64TOI16"; "F32TOI16"; "MULI8"; "DIVI8"; "REMI8";
   "NEGI8"; "INVI8"; "F64TOI8"; "F32TOI8"; "MULU16"; "REMU16"; "F64TOU16"; "F32TOU16"; "MULU8";
   "DIVU8"; "REMU8"; "NEGU8"; "INVU8"; "F64TOU8"; "F32TOU8"].
Definition assume_x86_64 : list (string * pat) := [].

Definition excl_arm : list string :=
  ["MULI16"; "DIVI16"; "REMI16"; "INVI16"; "I8TOI16"; "U8TOI16"; "MULI8"; "DIVI8"; "REMI8";
   "INVI8"; "I16TOI8"; "U16TOI8"; "REMU32"; "MULU16"; "DIVU16"; "REMU16"; "INVU16"; "I8TOU16";
   "U8TOU16"; "SUBU8"; "MULU8"; "DIVU8"; "REMU8"; "INVU8"; "I16TOU8"; "U16TOU8"].
Definition assume_arm : list (string * pat) := [("reg", POp "CONSTI8" [])].

Definition excl_thumb : list string :=
  ["INVI32"; "ADDI16"; "SUBI16"; "MULI16"; "DIVI16"; "REMI16"; "INVI16"; "I8TOI16"; "U8TOI16";
   "MULI8"; "DIVI8"; "REMI8"; "INVI8"; "I16TOI8"; "U16TOI8"; "DIVU32"; "REMU32"; "INVU32";
   "ADDU16"; "SUBU16"; "MULU16"; "DIVU16"; "REMU16"; "INVU16"; "I8TOU16"; "U8TOU16"; "ADDU8";
   "SUBU8"; "MULU8"; "DIVU8"; "REMU8"; "INVU8"; "I16TOU8"; "U16TOU8"; "MOVB"].
Definition assume_thumb : list (string * pat) := [].

Definition excl_riscv : list string :=
  ["F64TOF64"; "I16TOF64"; "I8TOF64"; "U32TOF64"; "U16TOF64"; "U8TOF64"; "F32TOF32"; "I16TOF32";
   "I8TOF32"; "U32TOF32"; "U16TOF32"; "U8TOF32"; "MULI16"; "DIVI16"; "REMI16"; "INVI16";
   "F64TOI16"; "F32TOI16"; "DIVI8"; "REMI8"; "F64TOI8"; "F32TOI8"; "F64TOU32"; "F32TOU32";
   "NEGU16"; "INVU16"; "F64TOU16"; "F32TOU16"; "DIVU8"; "REMU8"; "NEGU8"; "F64TOU8"; "F32TOU8"].
Definition assume_riscv : list (string * pat) := [("reg", POp "FPRELU32" [])].

Definition excl_riscv_rvc : list string :=
  ["F64TOF64"; "I16TOF64"; "I8TOF64"; "U32TOF64"; "U16TOF64"; "U8TOF64"; "F32TOF32"; "I16TOF32";
   "I8TOF32"; "U32TOF32"; "U16TOF32"; "U8TOF32"; "MULI16"; "DIVI16"; "REMI16"; "INVI16";
   "F64TOI16"; "F32TOI16"; "DIVI8"; "REMI8"; "F64TOI8"; "F32TOI8"; "F64TOU32"; "F32TOU32";
   "NEGU16"; "INVU16"; "F64TOU16"; "F32TOU16"; "DIVU8"; "REMU8"; "NEGU8"; "F64TOU8"; "F32TOU8"].
Definition assume_riscv_rvc : list (string * pat) := [("reg", POp "FPRELU32" [])].
