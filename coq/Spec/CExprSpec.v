(* Spec/CExprSpec.v — C11 integer expressions over variables (6.5): Spec/CIntSpec.v extended with
   object reads, the comma operator, simple and compound assignment to variables, and the store
   they act on.  Independent of ppci.  Types, promotions, usual arithmetic conversions,
   conversions and the operator semantics ([arith], [shift], [fit], [convert]) are the ones of
   Spec/CIntSpec.v; [embed]/[xeval_embed] (Proofs/C01_expr.v) shows that on closed expressions this
   evaluator IS CIntSpec.eval.

   Undefined behaviour = None.  6.5p2 (unsequenced side effect on an object that is also read or
   modified by the other operand) is the static check [seq_ok]; since the operands of an
   unsequenced operator then commute, [xeval] evaluates them left to right, and for [x op= e] reads
   x after e has been evaluated (e does not modify x under [seq_ok]). *)
From Coq Require Import ZArith List Bool.
From PV Require Import Spec.CIntSpec.
Import ListNotations.
Open Scope Z_scope.

Inductive cx :=
  | XLit (t : ity) (v : Z)
  | XVar (n : nat)                      (* the n-th declared variable / parameter *)
  | XCast (t : ity) (e : cx)
  | XUn (op : unop) (e : cx)
  | XBin (op : binop) (a b : cx)
  | XCond (c a b : cx)
  | XComma (a b : cx)
  | XAssign (n : nat) (e : cx)          (* x = e *)
  | XAssignOp (op : binop) (n : nat) (e : cx).   (* x op= e, op one of + - * / % << >> & | ^ *)

Definition tenv := list ity.            (* declared types *)
Definition store := list Z.             (* current values *)

Definition tvar (te : tenv) (n : nat) : ity := nth n te TInt.

Fixpoint xtype_of (dm : datamodel) (te : tenv) (e : cx) : ity :=
  match e with
  | XLit t _ => t
  | XVar n => tvar te n
  | XCast t _ => t
  | XUn ULNot _ => TInt
  | XUn _ a => promote dm (xtype_of dm te a)
  | XBin op a b =>
      if is_int_result op then TInt
      else if is_shift op then promote dm (xtype_of dm te a)
      else uac dm (promote dm (xtype_of dm te a)) (promote dm (xtype_of dm te b))
  | XCond _ a b => uac dm (promote dm (xtype_of dm te a)) (promote dm (xtype_of dm te b))
  | XComma _ b => xtype_of dm te b
  | XAssign n _ => tvar te n             (* 6.5.16p3: the type of the left operand *)
  | XAssignOp _ n _ => tvar te n
  end.

(* value of a unary / binary operator; ta, tb are the PROMOTED operand types *)
Definition un_val (dm : datamodel) (t : ity) (op : unop) (v : Z) : option Z :=
  match op with
  | ULNot => Some (b2z (v =? 0))
  | UPlus => Some (convert dm t v)
  | UNeg => fit dm t (- convert dm t v)
  | UCompl => Some (convert dm t (Z.lnot (convert dm t v)))
  end.
Definition bin_val (dm : datamodel) (ta tb : ity) (op : binop) (va vb : Z) : option Z :=
  let pa := convert dm ta va in
  let pb := convert dm tb vb in
  if is_shift op then shift dm ta op pa pb
  else let t := uac dm ta tb in arith dm t op (convert dm t pa) (convert dm t pb).

Fixpoint upd (s : store) (n : nat) (v : Z) : store :=
  match s, n with
  | [], _ => []
  | _ :: r, O => v :: r
  | x :: r, S k => x :: upd r k v
  end.

Definition is_compound_op (op : binop) : bool :=
  match op with
  | BAdd | BSub | BMul | BDiv | BMod | BShl | BShr | BAnd | BOr | BXor => true
  | _ => false
  end.

Fixpoint xeval (dm : datamodel) (te : tenv) (st : store) (e : cx) : option (Z * store) :=
  match e with
  | XLit t v => if in_range dm t v then Some (v, st) else None
  | XVar n => match nth_error st n with Some v => Some (v, st) | None => None end
  | XCast t a =>
      match xeval dm te st a with Some (v, s1) => Some (convert dm t v, s1) | None => None end
  | XUn op a =>
      match xeval dm te st a with
      | None => None
      | Some (v, s1) =>
          match un_val dm (promote dm (xtype_of dm te a)) op v with
          | Some r => Some (r, s1) | None => None
          end
      end
  | XBin BLAnd a b =>
      match xeval dm te st a with
      | None => None
      | Some (va, s1) =>
          if va =? 0 then Some (0, s1)              (* b is not evaluated: 6.5.13p4 *)
          else match xeval dm te s1 b with
               | Some (vb, s2) => Some (b2z (negb (vb =? 0)), s2) | None => None
               end
      end
  | XBin BLOr a b =>
      match xeval dm te st a with
      | None => None
      | Some (va, s1) =>
          if va =? 0
          then match xeval dm te s1 b with
               | Some (vb, s2) => Some (b2z (negb (vb =? 0)), s2) | None => None
               end
          else Some (1, s1)
      end
  | XBin op a b =>
      match xeval dm te st a with
      | None => None
      | Some (va, s1) =>
          match xeval dm te s1 b with
          | None => None
          | Some (vb, s2) =>
              match bin_val dm (promote dm (xtype_of dm te a)) (promote dm (xtype_of dm te b)) op va vb with
              | Some r => Some (r, s2) | None => None
              end
          end
      end
  | XCond c a b =>
      match xeval dm te st c with
      | None => None
      | Some (vc, s1) =>
          let t := xtype_of dm te (XCond c a b) in
          let x := if vc =? 0 then b else a in
          match xeval dm te s1 x with
          | Some (v, s2) => Some (convert dm t (convert dm (promote dm (xtype_of dm te x)) v), s2)
          | None => None
          end
      end
  | XComma a b =>
      match xeval dm te st a with Some (_, s1) => xeval dm te s1 b | None => None end
  | XAssign n a =>
      match xeval dm te st a with
      | None => None
      | Some (v, s1) =>
          match nth_error s1 n with
          | None => None
          | Some _ => let r := convert dm (tvar te n) v in Some (r, upd s1 n r)   (* 6.5.16.1p2 *)
          end
      end
  | XAssignOp op n a =>
      if negb (is_compound_op op) then None else
      match xeval dm te st a with
      | None => None
      | Some (vb, s1) =>
          match nth_error s1 n with
          | None => None
          | Some va =>
              (* 6.5.16.2p3: x = x op (e), x evaluated once *)
              match bin_val dm (promote dm (tvar te n)) (promote dm (xtype_of dm te a)) op va vb with
              | None => None
              | Some r => let r' := convert dm (tvar te n) r in Some (r', upd s1 n r')
              end
          end
      end
  end.

(* ---- 6.5p2: objects modified / read by an expression, unsequenced conflicts ---- *)
Fixpoint writes (e : cx) : list nat :=
  match e with
  | XLit _ _ | XVar _ => []
  | XCast _ a | XUn _ a => writes a
  | XBin _ a b | XComma a b => writes a ++ writes b
  | XCond c a b => writes c ++ writes a ++ writes b
  | XAssign n a | XAssignOp _ n a => n :: writes a
  end.
Fixpoint reads (e : cx) : list nat :=
  match e with
  | XLit _ _ => []
  | XVar n => [n]
  | XCast _ a | XUn _ a => reads a
  | XBin _ a b | XComma a b => reads a ++ reads b
  | XCond c a b => reads c ++ reads a ++ reads b
  | XAssign _ a => reads a
  | XAssignOp _ n a => n :: reads a
  end.
Definition disjoint (l1 l2 : list nat) : bool :=
  forallb (fun x => negb (existsb (Nat.eqb x) l2)) l1.
Fixpoint seq_ok (e : cx) : bool :=
  match e with
  | XLit _ _ | XVar _ => true
  | XCast _ a | XUn _ a => seq_ok a
  | XBin op a b =>
      seq_ok a && seq_ok b &&
      match op with
      | BLAnd | BLOr => true                         (* sequence point after the first operand *)
      | _ => disjoint (writes a) (reads b ++ writes b) && disjoint (writes b) (reads a ++ writes a)
      end
  | XCond c a b => seq_ok c && seq_ok a && seq_ok b
  | XComma a b => seq_ok a && seq_ok b
  | XAssign n a | XAssignOp _ n a => seq_ok a && negb (existsb (Nat.eqb n) (writes a))
  end.

Definition store_ok (dm : datamodel) (te : tenv) (st : store) : Prop :=
  Forall2 (fun t v => in_range dm t v = true) te st.

(* the meaning of a defined-behaviour expression: value and final store *)
Definition ceval (dm : datamodel) (te : tenv) (st : store) (e : cx) : option (Z * store) :=
  if seq_ok e then xeval dm te st e else None.

(* closed CIntSpec expressions are cx expressions *)
Fixpoint embed (e : expr) : cx :=
  match e with
  | ELit t v => XLit t v
  | ECast t a => XCast t (embed a)
  | EUn op a => XUn op (embed a)
  | EBin op a b => XBin op (embed a) (embed b)
  | ECond c a b => XCond (embed c) (embed a) (embed b)
  end.
