(* Spec/WasmOpcodeSpec.v — C21: reference table of the WebAssembly core instruction encodings
   (binary format, section 5.4 of the core specification: MVP + sign-extension +
   saturating conversions + bulk memory/table instructions with the immediates ppci supports),
   written independently of ppci/wasm/opcodes.py. One entry per line:
     (text-format mnemonic, opcode byte, optional 0xFC sub-opcode, immediates).
   The check also reads this file (line-wise) as the reference of its search oracle. *)
From Coq Require Import ZArith List String.
Import ListNotations.
Local Open Scope string_scope.
Local Open Scope Z_scope.

(* immediates as the specification's binary grammar names them *)
Inductive simm :=
  | SBlockType      (* bt: 0x40 | valtype (| s33 type index, not supported by ppci) *)
  | SLabelIdx | SLabelVec (* vec(l) l_N : br_table *)
  | SFuncIdx | STypeIdx | STableIdx | SLocalIdx | SGlobalIdx
  | SMemAlign | SMemOffset (* memarg = align:u32 offset:u32 *)
  | SZeroByte      (* the reserved 0x00 byte (memory index) *)
  | SI32 | SI64    (* signed LEB128 *)
  | SF32 | SF64.   (* little-endian IEEE 754 *)

Definition spec_opcodes : list (string * Z * option Z * list simm) := [
  ("unreachable", 0, None, []);
  ("nop", 1, None, []);
  ("block", 2, None, [SBlockType]);
  ("loop", 3, None, [SBlockType]);
  ("if", 4, None, [SBlockType]);
  ("else", 5, None, []);
  ("end", 11, None, []);
  ("br", 12, None, [SLabelIdx]);
  ("br_if", 13, None, [SLabelIdx]);
  ("br_table", 14, None, [SLabelVec]);
  ("return", 15, None, []);
  ("call", 16, None, [SFuncIdx]);
  ("call_indirect", 17, None, [STypeIdx; STableIdx]);
  ("drop", 26, None, []);
  ("local.get", 32, None, [SLocalIdx]);
  ("local.set", 33, None, [SLocalIdx]);
  ("local.tee", 34, None, [SLocalIdx]);
  ("global.get", 35, None, [SGlobalIdx]);
  ("global.set", 36, None, [SGlobalIdx]);
  ("table.get", 37, None, [STableIdx]);
  ("table.set", 38, None, [STableIdx]);
  ("i32.load", 40, None, [SMemAlign; SMemOffset]);
  ("i64.load", 41, None, [SMemAlign; SMemOffset]);
  ("f32.load", 42, None, [SMemAlign; SMemOffset]);
  ("f64.load", 43, None, [SMemAlign; SMemOffset]);
  ("i32.load8_s", 44, None, [SMemAlign; SMemOffset]);
  ("i32.load8_u", 45, None, [SMemAlign; SMemOffset]);
  ("i32.load16_s", 46, None, [SMemAlign; SMemOffset]);
  ("i32.load16_u", 47, None, [SMemAlign; SMemOffset]);
  ("i64.load8_s", 48, None, [SMemAlign; SMemOffset]);
  ("i64.load8_u", 49, None, [SMemAlign; SMemOffset]);
  ("i64.load16_s", 50, None, [SMemAlign; SMemOffset]);
  ("i64.load16_u", 51, None, [SMemAlign; SMemOffset]);
  ("i64.load32_s", 52, None, [SMemAlign; SMemOffset]);
  ("i64.load32_u", 53, None, [SMemAlign; SMemOffset]);
  ("i32.store", 54, None, [SMemAlign; SMemOffset]);
  ("i64.store", 55, None, [SMemAlign; SMemOffset]);
  ("f32.store", 56, None, [SMemAlign; SMemOffset]);
  ("f64.store", 57, None, [SMemAlign; SMemOffset]);
  ("i32.store8", 58, None, [SMemAlign; SMemOffset]);
  ("i32.store16", 59, None, [SMemAlign; SMemOffset]);
  ("i64.store8", 60, None, [SMemAlign; SMemOffset]);
  ("i64.store16", 61, None, [SMemAlign; SMemOffset]);
  ("i64.store32", 62, None, [SMemAlign; SMemOffset]);
  ("memory.size", 63, None, [SZeroByte]);
  ("memory.grow", 64, None, [SZeroByte]);
  ("i32.const", 65, None, [SI32]);
  ("i64.const", 66, None, [SI64]);
  ("f32.const", 67, None, [SF32]);
  ("f64.const", 68, None, [SF64]);
  ("i32.eqz", 69, None, []);
  ("i32.eq", 70, None, []);
  ("i32.ne", 71, None, []);
  ("i32.lt_s", 72, None, []);
  ("i32.lt_u", 73, None, []);
  ("i32.gt_s", 74, None, []);
  ("i32.gt_u", 75, None, []);
  ("i32.le_s", 76, None, []);
  ("i32.le_u", 77, None, []);
  ("i32.ge_s", 78, None, []);
  ("i32.ge_u", 79, None, []);
  ("i64.eqz", 80, None, []);
  ("i64.eq", 81, None, []);
  ("i64.ne", 82, None, []);
  ("i64.lt_s", 83, None, []);
  ("i64.lt_u", 84, None, []);
  ("i64.gt_s", 85, None, []);
  ("i64.gt_u", 86, None, []);
  ("i64.le_s", 87, None, []);
  ("i64.le_u", 88, None, []);
  ("i64.ge_s", 89, None, []);
  ("i64.ge_u", 90, None, []);
  ("f32.eq", 91, None, []);
  ("f32.ne", 92, None, []);
  ("f32.lt", 93, None, []);
  ("f32.gt", 94, None, []);
  ("f32.le", 95, None, []);
  ("f32.ge", 96, None, []);
  ("f64.eq", 97, None, []);
  ("f64.ne", 98, None, []);
  ("f64.lt", 99, None, []);
  ("f64.gt", 100, None, []);
  ("f64.le", 101, None, []);
  ("f64.ge", 102, None, []);
  ("i32.clz", 103, None, []);
  ("i32.ctz", 104, None, []);
  ("i32.popcnt", 105, None, []);
  ("i32.add", 106, None, []);
  ("i32.sub", 107, None, []);
  ("i32.mul", 108, None, []);
  ("i32.div_s", 109, None, []);
  ("i32.div_u", 110, None, []);
  ("i32.rem_s", 111, None, []);
  ("i32.rem_u", 112, None, []);
  ("i32.and", 113, None, []);
  ("i32.or", 114, None, []);
  ("i32.xor", 115, None, []);
  ("i32.shl", 116, None, []);
  ("i32.shr_s", 117, None, []);
  ("i32.shr_u", 118, None, []);
  ("i32.rotl", 119, None, []);
  ("i32.rotr", 120, None, []);
  ("i64.clz", 121, None, []);
  ("i64.ctz", 122, None, []);
  ("i64.popcnt", 123, None, []);
  ("i64.add", 124, None, []);
  ("i64.sub", 125, None, []);
  ("i64.mul", 126, None, []);
  ("i64.div_s", 127, None, []);
  ("i64.div_u", 128, None, []);
  ("i64.rem_s", 129, None, []);
  ("i64.rem_u", 130, None, []);
  ("i64.and", 131, None, []);
  ("i64.or", 132, None, []);
  ("i64.xor", 133, None, []);
  ("i64.shl", 134, None, []);
  ("i64.shr_s", 135, None, []);
  ("i64.shr_u", 136, None, []);
  ("i64.rotl", 137, None, []);
  ("i64.rotr", 138, None, []);
  ("f32.abs", 139, None, []);
  ("f32.neg", 140, None, []);
  ("f32.ceil", 141, None, []);
  ("f32.floor", 142, None, []);
  ("f32.trunc", 143, None, []);
  ("f32.nearest", 144, None, []);
  ("f32.sqrt", 145, None, []);
  ("f32.add", 146, None, []);
  ("f32.sub", 147, None, []);
  ("f32.mul", 148, None, []);
  ("f32.div", 149, None, []);
  ("f32.min", 150, None, []);
  ("f32.max", 151, None, []);
  ("f32.copysign", 152, None, []);
  ("f64.abs", 153, None, []);
  ("f64.neg", 154, None, []);
  ("f64.ceil", 155, None, []);
  ("f64.floor", 156, None, []);
  ("f64.trunc", 157, None, []);
  ("f64.nearest", 158, None, []);
  ("f64.sqrt", 159, None, []);
  ("f64.add", 160, None, []);
  ("f64.sub", 161, None, []);
  ("f64.mul", 162, None, []);
  ("f64.div", 163, None, []);
  ("f64.min", 164, None, []);
  ("f64.max", 165, None, []);
  ("f64.copysign", 166, None, []);
  ("i32.wrap_i64", 167, None, []);
  ("i32.trunc_f32_s", 168, None, []);
  ("i32.trunc_f32_u", 169, None, []);
  ("i32.trunc_f64_s", 170, None, []);
  ("i32.trunc_f64_u", 171, None, []);
  ("i64.extend_i32_s", 172, None, []);
  ("i64.extend_i32_u", 173, None, []);
  ("i64.trunc_f32_s", 174, None, []);
  ("i64.trunc_f32_u", 175, None, []);
  ("i64.trunc_f64_s", 176, None, []);
  ("i64.trunc_f64_u", 177, None, []);
  ("f32.convert_i32_s", 178, None, []);
  ("f32.convert_i32_u", 179, None, []);
  ("f32.convert_i64_s", 180, None, []);
  ("f32.convert_i64_u", 181, None, []);
  ("f32.demote_f64", 182, None, []);
  ("f64.convert_i32_s", 183, None, []);
  ("f64.convert_i32_u", 184, None, []);
  ("f64.convert_i64_s", 185, None, []);
  ("f64.convert_i64_u", 186, None, []);
  ("f64.promote_f32", 187, None, []);
  ("i32.reinterpret_f32", 188, None, []);
  ("i64.reinterpret_f64", 189, None, []);
  ("f32.reinterpret_i32", 190, None, []);
  ("f64.reinterpret_i64", 191, None, []);
  ("i32.extend8_s", 192, None, []);
  ("i32.extend16_s", 193, None, []);
  ("i64.extend8_s", 194, None, []);
  ("i64.extend16_s", 195, None, []);
  ("i64.extend32_s", 196, None, []);
  ("ref.is_null", 209, None, []);
  ("ref.func", 210, None, [SFuncIdx]);
  ("i32.trunc_sat_f32_s", 252, Some 0, []);
  ("i32.trunc_sat_f32_u", 252, Some 1, []);
  ("i32.trunc_sat_f64_s", 252, Some 2, []);
  ("i32.trunc_sat_f64_u", 252, Some 3, []);
  ("i64.trunc_sat_f32_s", 252, Some 4, []);
  ("i64.trunc_sat_f32_u", 252, Some 5, []);
  ("i64.trunc_sat_f64_s", 252, Some 6, []);
  ("i64.trunc_sat_f64_u", 252, Some 7, []);
  ("memory.copy", 252, Some 10, [SZeroByte; SZeroByte]);
  ("memory.fill", 252, Some 11, [SZeroByte]);
  ("table.copy", 252, Some 14, [STableIdx; STableIdx]);
  ("table.grow", 252, Some 15, [STableIdx]);
  ("table.size", 252, Some 16, [STableIdx]);
  ("table.fill", 252, Some 17, [STableIdx])
].

(* [select] has two encodings: 0x1B without immediates and 0x1C with a vector of value types *)
Definition spec_select_plain : Z := 27.
Definition spec_select_typed : Z := 28.
