(* Spec/IRWf.v — well-formedness of ppci IR functions (property C03), an independent definition
   over the hub syntax Spec/IRSyntax.v.  Dominance and reachability are the path-based
   definitions of Spec/CfgSpec.v (property C25) over the block-index graph of the function.

   [wf_function m f]  (NOT IRSyntax.wf_func, which is only the representation invariant):
     wf_entry       the function has an entry block
     wf_block_ids   block ids are pairwise distinct
     wf_shape       every block is  body ++ [t]  with t a terminator and no terminator in body
     wf_targets     every jump target is a block of the function
     wf_reachable   every block is reachable from the entry
     wf_def_ids     value ids are pairwise distinct;  wf_names: block names and value names are
                    pairwise distinct (ppci: one name table per function)
     wf_defined     every used value is defined (local definition, parameter in range, module name)
     wf_dom         a non-phi use is preceded by its definition in the same block, or the
                    defining block strictly dominates the using block
     wf_dom_phi     for a phi input (p, v): the definition of v dominates the END of p, i.e. the
                    defining block dominates p (reflexively: a definition inside p precedes p's
                    terminator because terminators define nothing)
     wf_phi_preds   the input blocks of a phi are pairwise distinct and are exactly the
                    predecessors of its block
                    (predecessor BLOCKS, not edges: ppci keys Phi.inputs by block, so a block
                    reached by both edges of `cjmp ? J : J` has ONE predecessor and its phis ONE
                    input; merging two distinct incoming values into such a shape — e.g. a broken
                    CleanPass.remove_empty_blocks — loses a value but stays well-formed: that is a
                    semantic defect, property C02, not an ill-formedness C03 can see)
     wf_types       operand / result types agree per instruction kind
   The executable checker [wf_function_b] is in Model/IRWfCheck.v; Proofs/C03_wf.v proves
   wf_function_b m f = true -> wf_function m f.  No ppci structure is used here. *)
From PV Require Import Lib.Py Spec.IRSyntax Spec.CfgSpec.
From Coq Require Import String.
Open Scope nat_scope.

(* ---------------------------------------------------------------- positions *)
Definition enum {A} (l : list A) : list (nat * A) := combine (seq 0 (List.length l)) l.

Record site := mk_site { s_bi : nat; s_blk : block; s_pos : nat; s_ins : instr }.

Definition block_sites (bk : nat * block) : list site :=
  map (fun pi => mk_site (fst bk) (snd bk) (fst pi) (snd pi)) (enum (b_ins (snd bk))).
Definition sites (f : func) : list site := flat_map block_sites (enum (f_blocks f)).

Fixpoint index_of (b : bid) (l : list block) : option nat :=
  match l with
  | [] => None
  | k :: r => if Pos.eqb (b_id k) b then Some 0 else option_map S (index_of b r)
  end.
(* index of the block with id b; an unknown id maps outside the graph (not an edge in CfgSpec) *)
Definition bidx (f : func) (b : bid) : nat :=
  match index_of b (f_blocks f) with Some k => k | None => List.length (f_blocks f) end.
Definition cfg (f : func) : graph := map (fun k => map (bidx f) (successors k)) (f_blocks f).

Definition defines (v : vid) (s : site) : bool :=
  match instr_def (s_ins s) with Some d => Pos.eqb (def_id d) v | None => false end.
(* the (first) definition site of v: block index, position, type *)
Definition def_site (f : func) (v : vid) : option (nat * nat * ty) :=
  match find (defines v) (sites f) with
  | Some s => match instr_def (s_ins s) with
              | Some d => Some (s_bi s, s_pos s, def_ty d)
              | None => None
              end
  | None => None
  end.

Definition ty_of (f : func) (r : vref) : option ty :=
  match r with
  | Loc v => option_map snd (def_site f v)
  | Param n => option_map snd (nth_error (f_params f) n)
  | Glob _ => Some Ptr
  | Unres _ => None
  end.

(* signature of a module-level subroutine: argument types, result (None = procedure) *)
Definition sig_of (m : modul) (s : string) : option (list ty * option ty) :=
  match find_ext m s with
  | Some (EFunc _ a r) => Some (a, Some r)
  | Some (EProc _ a) => Some (a, None)
  | Some (EVar _) => None
  | None => match find_func m s with
            | Some g => Some (map snd (f_params g), f_ret g)
            | None => None
            end
  end.

(* ---------------------------------------------------------------- the definition *)
Section WF.
Variable m : modul.
Variable f : func.

Definition wf_entry : Prop := f_blocks f <> [].
Definition wf_block_ids : Prop := NoDup (map b_id (f_blocks f)).
Definition wf_shape : Prop :=
  forall k, In k (f_blocks f) ->
    exists body t, b_ins k = body ++ [t] /\ is_terminator t = true /\
                   forall i, In i body -> is_terminator i = false.
Definition wf_targets : Prop :=
  forall k, In k (f_blocks f) -> forall b, In b (successors k) ->
    exists k', In k' (f_blocks f) /\ b_id k' = b.
Definition wf_reachable : Prop :=
  forall n, n < List.length (f_blocks f) -> reachable (cfg f) 0 n.
Definition wf_def_ids : Prop := NoDup (map def_id (func_defs f)).
Definition wf_names : Prop :=
  NoDup (map b_name (f_blocks f) ++ map def_name (func_defs f)).

Definition ref_ok (r : vref) : Prop :=
  match r with
  | Loc v => exists d, def_site f v = Some d
  | Param n => n < List.length (f_params f)
  | Glob s => In s (global_names m)
  | Unres _ => False
  end.
Definition wf_defined : Prop :=
  forall s, In s (sites f) -> forall r, In r (instr_uses (s_ins s)) -> ref_ok r.

Definition wf_dom : Prop :=
  forall s, In s (sites f) -> is_phi (s_ins s) = false ->
  forall v, In (Loc v) (instr_uses (s_ins s)) ->
    exists bj q t, def_site f v = Some (bj, q, t) /\
      ((bj = s_bi s /\ q < s_pos s) \/ (bj <> s_bi s /\ dominates (cfg f) 0 bj (s_bi s))).
Definition wf_dom_phi : Prop :=
  forall s v n t ins, In s (sites f) -> s_ins s = IPhi v n t ins ->
  forall pb w, In (pb, Loc w) ins ->
    exists bj q t', def_site f w = Some (bj, q, t') /\ dominates (cfg f) 0 bj (bidx f pb).
Definition is_pred (pb : bid) (k : block) : Prop :=
  exists k', In k' (f_blocks f) /\ b_id k' = pb /\ In (b_id k) (successors k').
Definition wf_phi_preds : Prop :=
  forall s v n t ins, In s (sites f) -> s_ins s = IPhi v n t ins ->
    NoDup (map fst ins) /\ forall pb, In pb (map fst ins) <-> is_pred pb (s_blk s).

Definition call_ok (c : vref) (args : list vref) (rt : option ty) : Prop :=
  match c with
  | Glob s => match sig_of m s with
              | Some (ats, r) => r = rt /\ map (ty_of f) args = map Some ats
              | None => True
              end
  | _ => True
  end.
Definition instr_typed (i : instr) : Prop :=
  match i with
  | IBinop _ _ t _ a b => ty_of f a = Some t /\ ty_of f b = Some t
  | IUnop _ _ t _ a => ty_of f a = Some t
  | ILoad _ _ _ a _ => ty_of f a = Some Ptr
  | IStore _ a _ => ty_of f a = Some Ptr
  | ICopyBlob d s _ => ty_of f d = Some Ptr /\ ty_of f s = Some Ptr
  | IPhi _ _ t ins => forall pb r, In (pb, r) ins -> ty_of f r = Some t
  | ICJump a _ b _ _ => ty_of f a = ty_of f b
  | IReturn a => exists t, f_ret f = Some t /\ ty_of f a = Some t
  | IExit => f_ret f = None
  | ICallF _ _ t c args => ty_of f c = Some Ptr /\ call_ok c args (Some t)
  | ICallP c args => ty_of f c = Some Ptr /\ call_ok c args None
  | _ => True
  end.
Definition wf_types : Prop := forall s, In s (sites f) -> instr_typed (s_ins s).

Definition wf_function : Prop :=
  wf_entry /\ wf_block_ids /\ wf_shape /\ wf_targets /\ wf_reachable /\ wf_def_ids /\ wf_names /\
  wf_defined /\ wf_dom /\ wf_dom_phi /\ wf_phi_preds /\ wf_types.
End WF.

Definition wf_module (m : modul) : Prop := forall f, In f (m_funcs m) -> wf_function m f.

