(* Spec/WasmCtlSpec.v — a tiny structured wasm control language with the standard label-stack
   reading of br (C23).  Independent of ppci.

   WCode b   : the straight-line code of IR block b (a `return` when b is a return block; when b
               ends in a conditional jump its condition is left on the operand stack)
   WBlock l  : block l end          br to its label = jump behind the end
   WLoop l   : loop l end           br to its label = jump to the start; falling out leaves it
   WIf t e   : if t [else e] end    consumes the condition; also a label (br 0 = behind the end)
   WBr k     : br k                 k = relative depth: 0 is the innermost enclosing construct

   Execution is big-step: a pending branch is the result [WBranch k h] that every enclosing
   construct decrements until it reaches its target (k = 0).  The condition consumed by `if` is the
   oracle applied to the history whose head is the block that computed it (as in StructSpec).
   Fuel is consumed by a backward branch to a loop start only. *)
From Coq Require Import List Bool Arith.
Import ListNotations.
From PV Require Import Spec.StructSpec.

Inductive winstr :=
| WCode (b : node)
| WBlock (body : list winstr)
| WLoop (body : list winstr)
| WIf (thn : list winstr) (els : option (list winstr))
| WBr (depth : nat).

Inductive wres :=
| WNormal (h : hist)
| WBranch (k : nat) (h : hist)
| WHalt (h : hist)
| WFuel (h : hist)
| WStuck (h : hist).

Definition wseq (ex : winstr -> hist -> wres) : list winstr -> hist -> wres :=
  fix ws (l : list winstr) (h : hist) {struct l} : wres :=
    match l with
    | [] => WNormal h
    | i :: r => match ex i h with WNormal h1 => ws r h1 | x => x end
    end.

(* leaving a labelled construct: a branch to it is resolved, others get one level closer *)
Definition unlabel (w : wres) : wres :=
  match w with
  | WBranch O h => WNormal h
  | WBranch (S k) h => WBranch k h
  | x => x
  end.

Definition wstep (g : cfg) (o : oracle) (restart : list winstr -> hist -> wres)
  : winstr -> hist -> wres :=
  fix go (i : winstr) {struct i} : hist -> wres :=
    match i with
    | WCode b => fun h =>
        match term_of g b with
        | Some TRet => WHalt (b :: h)
        | Some _ => WNormal (b :: h)
        | None => WStuck h
        end
    | WBlock body => fun h => unlabel (wseq go body h)
    | WLoop body => fun h =>
        match wseq go body h with
        | WBranch O h1 => restart [WLoop body] h1
        | WBranch (S k) h1 => WBranch k h1
        | x => x
        end
    | WIf t e => fun h =>
        match h with
        | b :: _ =>
            match term_of g b with
            | Some (TBr _ _) =>
                if o h then unlabel (wseq go t h)
                else match e with
                     | Some e' => unlabel (wseq go e' h)
                     | None => WNormal h
                     end
            | _ => WStuck h
            end
        | [] => WStuck h
        end
    | WBr k => fun h => WBranch k h
    end.

Fixpoint wexec (g : cfg) (o : oracle) (fuel : nat) : list winstr -> hist -> wres :=
  match fuel with
  | O => fun _ h => WFuel h
  | S f => wseq (wstep g o (wexec g o f))
  end.

(* the emitted function body follows the CFG (same reading as StructSpec.agrees) *)
Definition wagrees (g : cfg) (o : oracle) (c : list winstr) (fuel : nat) : Prop :=
  exists k, match wexec g o fuel c [] with
            | WHalt h => cfg_run g o k (TNode 0) [] = (h, THalt)
            | WFuel h => (exists p, cfg_run g o k (TNode 0) [] = (h, p)) /\ fuel <= length h
            | _ => False
            end.
