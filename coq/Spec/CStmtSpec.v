(* Spec/CStmtSpec.v — big-step semantics with fuel of structured C statements over integer locals
   (C11 6.8: compound, expression statement, declaration with initialiser, if / if-else, while, do-while,
   for, break, continue, return), on top of Spec/CExprSpec.v.  Independent of ppci.
   A statement ends normally, by break, by continue or by return v.  None = undefined behaviour (of an
   expression, of falling off the end of a value-returning function, break/continue outside a loop) or
   fuel exhausted (one unit per nesting step; a loop iteration re-enters the loop with one unit less).
   Controlling expressions are compared with 0 (6.8.4.1p2, 6.8.5p4); `return e` converts to the return type
   as if by assignment (6.8.6.4p3); `T x = e` converts to T (6.7.9p11).  Variables are slots of the store of
   Spec/CExprSpec.v (parameters first, then the locals in order of declaration); [scoped] is the static
   rule that a local is used only after its declaration in an enclosing or preceding position (6.2.1). *)
From Coq Require Import ZArith List Bool.
From PV Require Import Spec.CIntSpec Spec.CExprSpec.
Import ListNotations.
Open Scope Z_scope.

Inductive slabel := LNone | LCase (z : Z) | LDefault.

Inductive cstmt :=
  | SSkip
  | SExpr (e : cx)
  | SDecl (n : nat) (e : cx)                       (* T x_n = e; *)
  | SSeq (a b : cstmt)
  | SIf1 (c : cx) (a : cstmt)                      (* if without else *)
  | SIf (c : cx) (a b : cstmt)
  | SWhile (c : cx) (body : cstmt)
  | SDoWhile (body : cstmt) (c : cx)
  | SFor (init : cstmt) (c : cx) (post : cx) (body : cstmt)   (* init: SSkip, SExpr or SDecl *)
  | SBreak
  | SContinue
  | SReturn (e : cx)
  (* switch (e) { items }: the body is a compound statement whose top-level statements carry at most one label
     `case z:` (z = the value of the constant expression) or `default:` (6.8.4.2) *)
  | SSwitch (e : cx) (items : list (slabel * cstmt)).

Inductive sout := SNormal | SBrk | SCont | SRet (v : Z).

(* after one execution of a loop body: leave the loop with this outcome, or go on *)
Definition loop_exit (o : sout) : option sout :=
  match o with SBrk => Some SNormal | SRet v => Some (SRet v) | SNormal | SCont => None end.

(* where a switch jumps to: the items from the first `case z` with [eqv z], else from `default`, else nothing *)
Section Target.
  Context {A : Type}.
  Fixpoint find_case (eqv : Z -> bool) (l : list (slabel * A)) : option (list (slabel * A)) :=
    match l with
    | [] => None
    | (LCase z, s) :: r => if eqv z then Some l else find_case eqv r
    | _ :: r => find_case eqv r
    end.
  Fixpoint find_default (l : list (slabel * A)) : option (list (slabel * A)) :=
    match l with
    | [] => None
    | (LDefault, s) :: r => Some l
    | _ :: r => find_default r
    end.
  Definition switch_target (eqv : Z -> bool) (l : list (slabel * A)) : option (list (slabel * A)) :=
    match find_case eqv l with Some r => Some r | None => find_default l end.
End Target.

(* a break leaves the switch; continue / return pass through *)
Definition switch_exit (o : sout) : sout := match o with SBrk => SNormal | _ => o end.

Section Exec.
  Variable dm : datamodel.
  Variable te : tenv.
  Variable rt : ity.

  (* the iterations of `for (; c; post) body` after init; [ex] executes the body *)
  Fixpoint for_loop (ex : store -> cstmt -> option (sout * store)) (n : nat) (st : store) (c post : cx)
           (body : cstmt) {struct n} : option (sout * store) :=
    match n with
    | O => None
    | S m =>
      match ceval dm te st c with
      | None => None
      | Some (vc, s1) =>
          if vc =? 0 then Some (SNormal, s1)
          else match ex s1 body with
               | None => None
               | Some (o, s2) =>
                   match loop_exit o with
                   | Some o' => Some (o', s2)
                   | None => match ceval dm te s2 post with        (* continue ends up here too *)
                             | None => None
                             | Some (_, s3) => for_loop ex m s3 c post body
                             end
                   end
               end
      end
    end.

  (* the items of a switch body from the jump target on: fall through until something else than normal *)
  Fixpoint run_items (ex : store -> cstmt -> option (sout * store)) (l : list (slabel * cstmt)) (st : store)
    : option (sout * store) :=
    match l with
    | [] => Some (SNormal, st)
    | (_, s) :: r => match ex st s with
                     | Some (SNormal, s1) => run_items ex r s1
                     | x => x
                     end
    end.

  Fixpoint exec (fuel : nat) (st : store) (s : cstmt) {struct fuel} : option (sout * store) :=
    match fuel with
    | O => None
    | S f =>
      match s with
      | SSkip => Some (SNormal, st)
      | SExpr e => match ceval dm te st e with Some (_, s1) => Some (SNormal, s1) | None => None end
      | SDecl n e =>
          match ceval dm te st e with
          | Some (v, s1) => match nth_error s1 n with
                            | Some _ => Some (SNormal, upd s1 n (convert dm (tvar te n) v))
                            | None => None
                            end
          | None => None
          end
      | SSeq a b =>
          match exec f st a with
          | Some (SNormal, s1) => exec f s1 b
          | r => r
          end
      | SIf1 c a =>
          match ceval dm te st c with
          | Some (vc, s1) => if vc =? 0 then Some (SNormal, s1) else exec f s1 a
          | None => None
          end
      | SIf c a b =>
          match ceval dm te st c with
          | Some (vc, s1) => if vc =? 0 then exec f s1 b else exec f s1 a
          | None => None
          end
      | SWhile c body =>
          match ceval dm te st c with
          | None => None
          | Some (vc, s1) =>
              if vc =? 0 then Some (SNormal, s1)
              else match exec f s1 body with
                   | None => None
                   | Some (o, s2) => match loop_exit o with
                                     | Some o' => Some (o', s2)
                                     | None => exec f s2 (SWhile c body)
                                     end
                   end
          end
      | SDoWhile body c =>
          match exec f st body with
          | None => None
          | Some (o, s1) =>
              match loop_exit o with
              | Some o' => Some (o', s1)
              | None => match ceval dm te s1 c with
                        | None => None
                        | Some (vc, s2) => if vc =? 0 then Some (SNormal, s2) else exec f s2 (SDoWhile body c)
                        end
              end
          end
      | SFor init c post body =>
          match exec f st init with
          | Some (SNormal, s1) => for_loop (exec f) f s1 c post body
          | _ => None
          end
      | SBreak => Some (SBrk, st)
      | SContinue => Some (SCont, st)
      | SReturn e =>
          match ceval dm te st e with Some (v, s1) => Some (SRet (convert dm rt v), s1) | None => None end
      | SSwitch e items =>
          match ceval dm te st e with
          | None => None
          | Some (v, s1) =>
              let pt := promote dm (xtype_of dm te e) in       (* 6.8.4.2p5: promotions; labels converted to pt *)
              let pv := convert dm pt v in
              match switch_target (fun z => pv =? convert dm pt z) items with
              | None => Some (SNormal, s1)
              | Some rest => match run_items (exec f) rest s1 with
                             | Some (o, s2) => Some (switch_exit o, s2)
                             | None => None
                             end
              end
          end
      end
    end.
End Exec.

(* ---- static rules: declaration before use, break/continue inside a loop ---- *)
Definition cx_vars (e : cx) : list nat := reads e ++ writes e.
Definition all_in (l d : list nat) : bool := forallb (fun x => existsb (Nat.eqb x) d) l.
(* [scoped d s] = Some d' : s uses only variables of d; d' = d plus the declarations of s visible after it *)
Fixpoint scoped (inbrk inloop : bool) (d : list nat) (s : cstmt) : option (list nat) :=
  match s with
  | SSkip => Some d
  | SExpr e => if all_in (cx_vars e) d then Some d else None
  | SDecl n e => if all_in (cx_vars e) d && negb (existsb (Nat.eqb n) d) then Some (n :: d) else None
  | SSeq a b => match scoped inbrk inloop d a with Some d1 => scoped inbrk inloop d1 b | None => None end
  | SIf1 c a => if all_in (cx_vars c) d then match scoped inbrk inloop d a with Some _ => Some d | None => None end else None
  | SIf c a b =>
      if all_in (cx_vars c) d
      then match scoped inbrk inloop d a, scoped inbrk inloop d b with Some _, Some _ => Some d | _, _ => None end
      else None
  | SWhile c body =>
      if all_in (cx_vars c) d then match scoped true true d body with Some _ => Some d | None => None end else None
  | SDoWhile body c =>
      if all_in (cx_vars c) d then match scoped true true d body with Some _ => Some d | None => None end else None
  | SFor init c post body =>
      match scoped inbrk inloop d init with
      | Some d1 => if all_in (cx_vars c) d1 && all_in (cx_vars post) d1
                   then match scoped true true d1 body with Some _ => Some d | None => None end else None
      | None => None
      end
  | SBreak => if inbrk then Some d else None
  | SContinue => if inloop then Some d else None
  | SReturn e => if all_in (cx_vars e) d then Some d else None
  | SSwitch e items =>      (* no declaration is jumped over: items do not declare at their top level *)
      if all_in (cx_vars e) d &&
         forallb (fun it => match it with
                            | (_, SDecl _ _) => false
                            | (_, s) => match scoped true inloop d s with Some _ => true | None => false end
                            end) items
      then Some d else None
  end.

(* the value returned by `rt f(params) { body }` called with [args]; the locals occupy the slots after the
   parameters (their initial content is never read by a scoped body) *)
Definition run_fn (dm : datamodel) (te : tenv) (nparams : nat) (rt : ity) (fuel : nat) (args : list Z)
           (body : cstmt) : option Z :=
  match scoped false false (seq 0 nparams) body with
  | None => None
  | Some _ =>
      match exec dm te rt fuel (args ++ repeat 0 (List.length te - nparams)) body with
      | Some (SRet v, _) => Some v
      | _ => None        (* falling off the end: the value is used by the caller (6.9.1p12) *)
      end
  end.
