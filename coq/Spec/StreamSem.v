(* Spec/StreamSem.v — abstract semantics of an instruction stream for the peephole filter (C04).
   An instruction that has an `effect` is completely described by it: a label definition or an
   unconditional jump to a label. Every other instruction [IOther k] has an ARBITRARY semantics
   [sem k]: it transforms an abstract machine state and then falls through, transfers control to a
   label (conditional branches, calls that come back are all instances) or stops the run.
   The state type S is arbitrary, so it can carry the whole trace of what was executed. *)
From Coq Require Import List Arith Bool.
Import ListNotations.

Section Sem.
  Context {L K S : Type}.
  Variable L_eqb : L -> L -> bool.

  Inductive instr := ILabel (l : L) | IJmp (l : L) | IOther (k : K).
  Inductive ctl := Next | Goto (l : L) | Halt.
  Variable sem : K -> S -> S * ctl.

  (* position of the first definition of label l *)
  Fixpoint find_label (l : L) (p : list instr) : option nat :=
    match p with
    | [] => None
    | ILabel l' :: tl => if L_eqb l' l then Some 0 else option_map Datatypes.S (find_label l tl)
    | _ :: tl => option_map Datatypes.S (find_label l tl)
    end.

  Inductive status :=
    | Running (pc : nat)
    | Halted                 (* an instruction stopped the run *)
    | Fell                   (* control ran past the last instruction *)
    | NoLabel (l : L).       (* jump to a label that is not defined in the stream *)

  Definition goto (p : list instr) (l : L) : status :=
    match find_label l p with Some n => Running n | None => NoLabel l end.

  Definition step (p : list instr) (pc : nat) (s : S) : status * S :=
    match nth_error p pc with
    | None => (Fell, s)
    | Some (ILabel _) => (Running (Datatypes.S pc), s)
    | Some (IJmp l) => (goto p l, s)
    | Some (IOther k) =>
        let '(s', c) := sem k s in
        (match c with Next => Running (Datatypes.S pc) | Goto l => goto p l | Halt => Halted end, s')
    end.

  (* n steps; a stopped machine stays as it is *)
  Fixpoint run (p : list instr) (n : nat) (st : status) (s : S) : status * S :=
    match n with
    | O => (st, s)
    | Datatypes.S n' =>
        match st with
        | Running pc => let '(st', s') := step p pc s in run p n' st' s'
        | _ => (st, s)
        end
    end.

  Definition labels (p : list instr) : list L :=
    flat_map (fun i => match i with ILabel l => [l] | _ => [] end) p.

  (* what PeepHoleStream sees of these instructions *)
  Definition i_effect (i : instr) : option L :=
    match i with ILabel l => Some l | IJmp l => Some l | IOther _ => None end.
  Definition i_is_label (i : instr) : bool :=
    match i with ILabel _ => true | _ => false end.
End Sem.
Arguments instr : clear implicits.
Arguments status : clear implicits.
