(* Spec/LinkSpec.v — independent vocabulary for property C12 (no ppci structure):
   what it means for bytes to sit at an offset, for an address to be aligned, and what a
   memory image holds at an address. *)
From PV Require Import Lib.Py.
Open Scope Z_scope.

(* [bs] occupies [off, off + len bs) of [l] *)
Definition bytes_at (l : list Z) (off : Z) (bs : list Z) : Prop :=
  exists pre post, l = pre ++ bs ++ post /\ len pre = off.

(* x is a multiple of the (non-zero) alignment a *)
Definition aligned (x a : Z) : Prop := a <> 0 /\ x mod a = 0.

(* x is the least position >= x0 that is a multiple of a *)
Definition least_aligned_from (x0 x a : Z) : Prop :=
  aligned x a /\ x0 <= x /\ forall y, x0 <= y < x -> y mod a <> 0.

(* the byte a memory holds at absolute address [a], given (address, contents) blocks:
   the first block covering [a]; 0 where no block covers it *)
Fixpoint mem_byte (blocks : list (Z * list Z)) (a : Z) : Z :=
  match blocks with
  | [] => 0
  | (addr, d) :: r =>
      if (addr <=? a) && (a <? addr + len d) then nth (Z.to_nat (a - addr)) d 0
      else mem_byte r a
  end.

(* blocks are laid out one after the other starting not before [cur] *)
Fixpoint ordered_from (cur : Z) (blocks : list (Z * list Z)) : Prop :=
  match blocks with
  | [] => True
  | (addr, d) :: r => cur <= addr /\ ordered_from (addr + len d) r
  end.

(* end of the last block (cur when there is none) *)
Fixpoint end_of (cur : Z) (blocks : list (Z * list Z)) : Z :=
  match blocks with
  | [] => cur
  | (addr, d) :: r => end_of (addr + len d) r
  end.

(* pairwise disjointness of address ranges *)
Definition disjoint (b1 b2 : Z * list Z) : Prop :=
  fst b1 + len (snd b1) <= fst b2 \/ fst b2 + len (snd b2) <= fst b1.

(* one contribution of [bytes] with alignment [a] recorded at offset [off] of [out]:
   out = pre ++ (k zero bytes) ++ bytes ++ post, off = len pre + k is the least multiple of a
   that is >= len pre *)
Definition contribution_at (out : list Z) (a off : Z) (bytes : list Z) : Prop :=
  exists pre k post,
    out = pre ++ repeat 0 (Z.to_nat k) ++ bytes ++ post /\ 0 <= k /\
    least_aligned_from (len pre) off a /\ off = len pre + k /\ k < Z.abs a.
