(* Spec/OrderedSetSpec.v — what "a set that retains insertion order" means, without lists.

   A *timestamped set* remembers, for every element currently in the set, the logical time of the
   insertion that put it there (an element that is discarded and added again gets a new time).
   The time is a counter of the successful insertions of the operation history; nothing else — no
   hash, no address — enters.  The iteration order demanded by the specification is "by increasing
   timestamp"; [represents] says that a list is exactly that enumeration, and it is unique
   ([represents_unique] in Proofs/C30_orderedset.v). *)
From Coq Require Import ZArith List Sorted Lia.
Import ListNotations.
Open Scope Z_scope.

Record tset := { stamp : Z -> option nat; clock : nat }.

Definition t_empty : tset := {| stamp := fun _ => None; clock := O |}.
Definition t_mem (t : tset) (x : Z) : bool := match stamp t x with Some _ => true | None => false end.

Definition t_add (t : tset) (x : Z) : tset :=
  if t_mem t x then t
  else {| stamp := fun y => if y =? x then Some (clock t) else stamp t y; clock := S (clock t) |}.
Definition t_del (t : tset) (x : Z) : tset :=
  {| stamp := fun y => if y =? x then None else stamp t y; clock := clock t |}.
Definition t_clear (t : tset) : tset := {| stamp := fun _ => None; clock := clock t |}.
(* keep only the elements satisfying p *)
Definition t_keep (t : tset) (p : Z -> bool) : tset :=
  {| stamp := fun y => if p y then stamp t y else None; clock := clock t |}.

(* x was inserted before y (both present) *)
Definition t_before (t : tset) (x y : Z) : Prop :=
  exists a b, stamp t x = Some a /\ stamp t y = Some b /\ (a < b)%nat.
(* x is the oldest element *)
Definition t_oldest (t : tset) (x : Z) : Prop :=
  t_mem t x = true /\ forall y, t_mem t y = true -> y <> x -> t_before t x y.

Definition well_formed (t : tset) : Prop := forall x a, stamp t x = Some a -> (a < clock t)%nat.

(* l enumerates t by increasing timestamp *)
Definition represents (l : list Z) (t : tset) : Prop :=
  (forall x, In x l <-> t_mem t x = true) /\ StronglySorted (t_before t) l /\ well_formed t.

(* ---- the operations of a mutable ordered set, on timestamped sets ---- *)
Inductive sop :=
  | SAdd (x : Z) | SDiscard (x : Z) | SRemove (x : Z) | SPop | SClear
  | SIor (it : list Z) | SIsub (it : list Z) | SIand (it : list Z).
Inductive sout := SNone | SVal (x : Z) | SKeyError.

Definition inb (x : Z) (l : list Z) : bool := existsb (Z.eqb x) l.

(* one operation: relation because "the oldest element" is specified, not computed *)
Inductive sstep : tset -> sop -> tset -> sout -> Prop :=
  | s_add : forall t x, sstep t (SAdd x) (t_add t x) SNone
  | s_discard : forall t x, sstep t (SDiscard x) (t_del t x) SNone
  | s_remove_ok : forall t x, t_mem t x = true -> sstep t (SRemove x) (t_del t x) SNone
  | s_remove_err : forall t x, t_mem t x = false -> sstep t (SRemove x) t SKeyError
  | s_pop_ok : forall t x, t_oldest t x -> sstep t SPop (t_del t x) (SVal x)
  | s_pop_err : forall t, (forall x, t_mem t x = false) -> sstep t SPop t SKeyError
  | s_clear : forall t, sstep t SClear (t_clear t) SNone
  | s_ior : forall t it, sstep t (SIor it) (fold_left t_add it t) SNone       (* elements added in the order given *)
  | s_isub : forall t it, sstep t (SIsub it) (fold_left t_del it t) SNone
  | s_iand : forall t it, sstep t (SIand it) (t_keep t (fun y => inb y it)) SNone.

Inductive ssteps : tset -> list sop -> tset -> list sout -> Prop :=
  | ss_nil : forall t, ssteps t [] t []
  | ss_cons : forall t o t1 out r t2 outs,
      sstep t o t1 out -> ssteps t1 r t2 outs -> ssteps t (o :: r) t2 (out :: outs).
