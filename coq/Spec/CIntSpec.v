(* Spec/CIntSpec.v — C integer arithmetic as ISO C11 prescribes it (6.2.5 types, 6.3.1.1 rank and
   integer promotions, 6.3.1.3 conversions, 6.3.1.8 usual arithmetic conversions, 6.5 operators,
   6.6 constant expressions, 6.10.1p4 #if arithmetic). Independent of ppci: nothing here mirrors
   ppci's structure. Implementation-defined choices are the ones of gcc: conversion of an
   out-of-range value to a signed type wraps modulo 2^N; >> of a negative value is arithmetic.
   Undefined behaviour (and constraint violations of 6.6p4) = None. *)
From Coq Require Import ZArith List Bool.
Import ListNotations.
Open Scope Z_scope.

(* ---- data model (sizes in bits) ---- *)
Record datamodel := mkdm {
  bits_char : Z; bits_short : Z; bits_int : Z; bits_long : Z; bits_llong : Z;
  char_signed : bool }.

Definition wf_dm (dm : datamodel) : Prop :=
  8 <= bits_char dm /\ bits_char dm <= bits_short dm /\ 16 <= bits_short dm /\
  bits_short dm <= bits_int dm /\ bits_int dm <= bits_long dm /\ bits_long dm <= bits_llong dm.

(* standard integer types; [signed char] is TChar in a data model with char_signed = true *)
Inductive ity := TChar | TUChar | TShort | TUShort | TInt | TUInt | TLong | TULong | TLLong | TULLong.

Definition ity_eqb (a b : ity) : bool :=
  match a, b with
  | TChar, TChar | TUChar, TUChar | TShort, TShort | TUShort, TUShort | TInt, TInt
  | TUInt, TUInt | TLong, TLong | TULong, TULong | TLLong, TLLong | TULLong, TULLong => true
  | _, _ => false
  end.

Definition rank (t : ity) : Z :=
  match t with
  | TChar | TUChar => 1 | TShort | TUShort => 2 | TInt | TUInt => 3
  | TLong | TULong => 4 | TLLong | TULLong => 5
  end.

Definition is_signed (dm : datamodel) (t : ity) : bool :=
  match t with
  | TChar => char_signed dm
  | TShort | TInt | TLong | TLLong => true
  | TUChar | TUShort | TUInt | TULong | TULLong => false
  end.

Definition bits (dm : datamodel) (t : ity) : Z :=
  match t with
  | TChar | TUChar => bits_char dm | TShort | TUShort => bits_short dm
  | TInt | TUInt => bits_int dm | TLong | TULong => bits_long dm
  | TLLong | TULLong => bits_llong dm
  end.

Definition to_unsigned (t : ity) : ity :=
  match t with
  | TChar => TUChar | TShort => TUShort | TInt => TUInt | TLong => TULong | TLLong => TULLong
  | u => u
  end.

Definition tmin (dm : datamodel) (t : ity) : Z :=
  if is_signed dm t then - 2 ^ (bits dm t - 1) else 0.
Definition tmax (dm : datamodel) (t : ity) : Z :=
  if is_signed dm t then 2 ^ (bits dm t - 1) - 1 else 2 ^ bits dm t - 1.
Definition in_range (dm : datamodel) (t : ity) (v : Z) : bool :=
  (tmin dm t <=? v) && (v <=? tmax dm t).

(* 6.3.1.3: value-preserving when representable; unsigned: modulo 2^N; signed: gcc wraps *)
Definition convert (dm : datamodel) (t : ity) (v : Z) : Z :=
  let m := 2 ^ bits dm t in
  if is_signed dm t then (v + m / 2) mod m - m / 2 else v mod m.

(* 6.3.1.1p2 integer promotions *)
Definition promote (dm : datamodel) (t : ity) : ity :=
  if rank t <? 3 then
    (if is_signed dm t || (bits dm t <? bits_int dm) then TInt else TUInt)
  else t.

(* 6.3.1.8 usual arithmetic conversions (on promoted types) *)
Definition uac (dm : datamodel) (a b : ity) : ity :=
  if ity_eqb a b then a
  else if Bool.eqb (is_signed dm a) (is_signed dm b) then (if rank a <? rank b then b else a)
  else
    let u := if is_signed dm a then b else a in
    let s := if is_signed dm a then a else b in
    if rank s <=? rank u then u
    else if bits dm u <? bits dm s then s
    else to_unsigned s.

(* ---- expressions ---- *)
Inductive unop := UNeg | UCompl | ULNot | UPlus.
Inductive binop :=
  | BAdd | BSub | BMul | BDiv | BMod | BShl | BShr | BAnd | BOr | BXor
  | BLt | BGt | BLe | BGe | BEq | BNe | BLAnd | BLOr.

Inductive expr :=
  | ELit (t : ity) (v : Z)            (* integer constant whose type (6.4.4.1) is t *)
  | ECast (t : ity) (e : expr)
  | EUn (op : unop) (e : expr)
  | EBin (op : binop) (a b : expr)
  | ECond (c a b : expr).

Definition is_shift (op : binop) := match op with BShl | BShr => true | _ => false end.
Definition is_int_result (op : binop) :=
  match op with BLt | BGt | BLe | BGe | BEq | BNe | BLAnd | BLOr => true | _ => false end.

(* the type of an expression (does not depend on values; unevaluated operands are typed too) *)
Fixpoint type_of (dm : datamodel) (e : expr) : ity :=
  match e with
  | ELit t _ => t
  | ECast t _ => t
  | EUn ULNot _ => TInt
  | EUn _ a => promote dm (type_of dm a)
  | EBin op a b =>
      if is_int_result op then TInt
      else if is_shift op then promote dm (type_of dm a)
      else uac dm (promote dm (type_of dm a)) (promote dm (type_of dm b))
  | ECond _ a b => uac dm (promote dm (type_of dm a)) (promote dm (type_of dm b))
  end.

(* result of an arithmetic operation in type t: signed overflow is undefined (6.5p5; in a
   constant expression a constraint violation 6.6p4), unsigned arithmetic is modulo 2^N *)
Definition fit (dm : datamodel) (t : ity) (r : Z) : option Z :=
  if is_signed dm t then (if in_range dm t r then Some r else None)
  else Some (r mod 2 ^ bits dm t).

Definition b2z (b : bool) : Z := if b then 1 else 0.

(* a op b on operands already converted to the common type t *)
Definition arith (dm : datamodel) (t : ity) (op : binop) (a b : Z) : option Z :=
  match op with
  | BAdd => fit dm t (a + b)
  | BSub => fit dm t (a - b)
  | BMul => fit dm t (a * b)
  | BDiv => if b =? 0 then None else fit dm t (Z.quot a b)      (* 6.5.5p6 truncation toward zero *)
  | BMod => if b =? 0 then None
            else match fit dm t (Z.quot a b) with          (* 6.5.5p6: a/b must be representable *)
                 | Some _ => fit dm t (Z.rem a b) | None => None end
  | BAnd => Some (convert dm t (Z.land a b))   (* in range for in-range operands; convert = id *)
  | BOr => Some (convert dm t (Z.lor a b))
  | BXor => Some (convert dm t (Z.lxor a b))
  | BLt => Some (b2z (a <? b)) | BGt => Some (b2z (a >? b))
  | BLe => Some (b2z (a <=? b)) | BGe => Some (b2z (a >=? b))
  | BEq => Some (b2z (a =? b)) | BNe => Some (b2z (negb (a =? b)))
  | _ => None
  end.

(* a << n, a >> n in the (promoted) type t of the left operand; 6.5.7 *)
Definition shift (dm : datamodel) (t : ity) (op : binop) (a n : Z) : option Z :=
  if (n <? 0) || (bits dm t <=? n) then None
  else match op with
       | BShl => if is_signed dm t then
                   (if a <? 0 then None
                    else if in_range dm t (a * 2 ^ n) then Some (a * 2 ^ n) else None)
                 else Some ((a * 2 ^ n) mod 2 ^ bits dm t)
       | BShr => Some (convert dm t (a / 2 ^ n))   (* floor: arithmetic shift for a < 0 (gcc) *)
       | _ => None
       end.

Fixpoint eval (dm : datamodel) (e : expr) : option Z :=
  match e with
  | ELit t v => if in_range dm t v then Some v else None
  | ECast t a => match eval dm a with Some v => Some (convert dm t v) | None => None end
  | EUn op a =>
      match eval dm a with
      | None => None
      | Some v =>
          let t := promote dm (type_of dm a) in
          match op with
          | ULNot => Some (b2z (v =? 0))
          | UPlus => Some (convert dm t v)
          | UNeg => fit dm t (- convert dm t v)
          | UCompl => Some (convert dm t (Z.lnot (convert dm t v)))
          end
      end
  | EBin BLAnd a b =>
      match eval dm a with
      | None => None
      | Some va => if va =? 0 then Some 0      (* b is not evaluated: 6.5.13p4, 6.6p3 *)
                   else match eval dm b with Some vb => Some (b2z (negb (vb =? 0))) | None => None end
      end
  | EBin BLOr a b =>
      match eval dm a with
      | None => None
      | Some va => if va =? 0
                   then match eval dm b with Some vb => Some (b2z (negb (vb =? 0))) | None => None end
                   else Some 1
      end
  | EBin op a b =>
      match eval dm a, eval dm b with
      | Some va, Some vb =>
          let ta := promote dm (type_of dm a) in
          let tb := promote dm (type_of dm b) in
          let pa := convert dm ta va in          (* integer promotions (value preserving) *)
          let pb := convert dm tb vb in
          if is_shift op then shift dm ta op pa pb
          else let t := uac dm ta tb in arith dm t op (convert dm t pa) (convert dm t pb)
      | _, _ => None
      end
  | ECond c a b =>
      match eval dm c with
      | None => None
      | Some vc =>
          let t := type_of dm (ECond c a b) in
          let x := if vc =? 0 then b else a in
          match eval dm x with
          | Some v => Some (convert dm t (convert dm (promote dm (type_of dm x)) v)) | None => None end
      end
  end.

Definition const_eval (dm : datamodel) (e : expr) : option (ity * Z) :=
  match eval dm e with Some v => Some (type_of dm e, v) | None => None end.

(* ---- object representation of an integer (6.2.6.1/6.2.6.2, two's complement): n bytes.
   Floor division and modulo by 256 produce exactly the two's complement digits of a negative v. ---- *)
Fixpoint le_bytes (n : nat) (v : Z) : list Z :=
  match n with O => [] | S n' => (v mod 256) :: le_bytes n' (v / 256) end.
Definition bytes_of (little : bool) (nbytes : Z) (v : Z) : list Z :=
  let l := le_bytes (Z.to_nat nbytes) v in if little then l else rev l.

(* ---- #if expressions (6.10.1p4): every signed operand has type intmax_t, every unsigned one
   uintmax_t; otherwise the rules above. Data model: int = long = long long = 64 bits. ---- *)
Inductive pexpr :=
  | PLit (unsigned_suffix : bool) (v : Z)
  | PUn (op : unop) (e : pexpr)
  | PBin (op : binop) (a b : pexpr)
  | PCond (c a b : pexpr).

Definition dm_pp : datamodel := mkdm 8 16 64 64 64 true.

Fixpoint pp_expr (e : pexpr) : expr :=
  match e with
  | PLit u v => ELit (if u then TULLong else TLLong) v
  | PUn op a => EUn op (pp_expr a)
  | PBin op a b => EBin op (pp_expr a) (pp_expr b)
  | PCond c a b => ECond (pp_expr c) (pp_expr a) (pp_expr b)
  end.

Definition pp_eval (e : pexpr) : option Z := eval dm_pp (pp_expr e).
