(* Spec/RegAllocSpec.v — C06: abstract machine for register allocation (no ppci structure).

   A program is a list of abstract instructions: which registers are read, which are
   written (defs and clobbers), whether the instruction is a plain copy, and where control can
   go next (as ppci's FlowGraph reads it: a non-empty [jumps] list is the complete successor
   list, an empty one means fall through).  What an instruction computes is an ARBITRARY
   function [sem_out] from the values of its uses to values for defs ++ clobbers (copies
   excepted: a move copies), and the branch taken is an ARBITRARY function [sem_br] of the
   values read.  Registers alias: writing r also changes every register r' with [alias r r'];
   its new contents are an ARBITRARY function [junk] of the program point, the two registers,
   the value written and the old contents of r' (this covers sub-register writes such as
   al/ax/eax/rax or AVR register pairs).  In the virtual-register program only physical
   (precoloured) registers alias each other ([src_alias]); virtual registers are independent
   names.  A deleted instruction is represented by [None] and does nothing. *)
From Coq Require Import ZArith List Bool Arith.
Import ListNotations.
Open Scope Z_scope.

Definition reg := Z.
Definition value := Z.
Definition regfile := reg -> value.

Record instr := mkInstr {
  i_uses : list reg; i_defs : list reg; i_clob : list reg;
  i_move : bool; i_jumps : list nat }.

(* ---- control flow *)
Definition succs (prog : list instr) (pc : nat) : list nat :=
  match nth_error prog pc with
  | None => []
  | Some i => match i_jumps i with [] => [S pc] | js => js end
  end.

(* ---- true liveness: r is read before being (re)defined on some path starting at pc *)
Inductive live_in (prog : list instr) (r : reg) : nat -> Prop :=
| li_use : forall pc i, nth_error prog pc = Some i -> In r (i_uses i) -> live_in prog r pc
| li_pass : forall pc i pc', nth_error prog pc = Some i -> ~ In r (i_defs i) ->
    In pc' (succs prog pc) -> live_in prog r pc' -> live_in prog r pc.
Definition live_out (prog : list instr) (r : reg) (pc : nat) : Prop :=
  exists pc', In pc' (succs prog pc) /\ live_in prog r pc'.

Inductive reachable (prog : list instr) : nat -> Prop :=
| reach_entry : reachable prog 0%nat
| reach_step : forall pc pc', reachable prog pc -> In pc' (succs prog pc) -> reachable prog pc'.

(* ---- execution *)
Record semantics := mkSem {
  sem_out : nat -> list value -> list value;   (* pc, values of uses -> values of defs ++ clobbers *)
  sem_br : nat -> list value -> nat }.          (* pc, values of uses -> index into jumps *)

Definition junk_t := reg -> reg -> value -> value -> value.

Definition write (al : reg -> reg -> bool) (junk : junk_t) (d : reg) (x : value)
  (rf : regfile) : regfile :=
  fun r => if r =? d then x else if al d r then junk d r x (rf r) else rf r.

(* aliasing among the registers of the virtual-register program *)
Definition src_alias (isphys : reg -> bool) (alias : reg -> reg -> bool) (u v : reg) : bool :=
  isphys u && isphys v && alias u v.

Fixpoint writes (al : reg -> reg -> bool) (junk : junk_t) (ds : list reg)
  (xs : list value) (rf : regfile) : regfile :=
  match ds with
  | [] => rf
  | d :: ds' => writes al junk ds' (tl xs) (write al junk d (hd 0 xs) rf)
  end.

Definition next_pc (S : semantics) (pc : nat) (i : instr) (vals : list value) : nat :=
  match i_jumps i with
  | [] => Datatypes.S pc
  | j :: js => nth (sem_br S pc vals) (j :: js) j
  end.

Definition state := (nat * regfile)%type.

Definition step (al : reg -> reg -> bool) (junk : nat -> junk_t)
  (S : semantics) (prog : list (option instr)) (st : state) : state :=
  let (pc, rf) := st in
  match nth_error prog pc with
  | None => st                                   (* left the program: halted *)
  | Some None => (Datatypes.S pc, rf)            (* deleted instruction *)
  | Some (Some i) =>
      let vals := map rf (i_uses i) in
      let outs := if i_move i then vals else sem_out S pc vals in
      (next_pc S pc i vals, writes al (junk pc) (i_defs i ++ i_clob i) outs rf)
  end.

Fixpoint run (al : reg -> reg -> bool) (junk : nat -> junk_t)
  (S : semantics) (prog : list (option instr)) (n : nat) (st : state) : state :=
  match n with
  | O => st
  | Datatypes.S n' => run al junk S prog n' (step al junk S prog st)
  end.

(* the values the instruction at the current point is about to read (None when halted/deleted) *)
Definition reads (prog : list (option instr)) (st : state) : option (list value) :=
  match nth_error prog (fst st) with
  | Some (Some i) => Some (map (snd st) (i_uses i))
  | _ => None
  end.

(* ---- allocation: renaming by a colouring, deleted instructions *)
Definition rename (color : reg -> reg) (i : instr) : instr :=
  mkInstr (map color (i_uses i)) (map color (i_defs i)) (map color (i_clob i))
          (i_move i) (i_jumps i).

Fixpoint target (color : reg -> reg) (prog : list instr) (removed : list bool)
  : list (option instr) :=
  match prog with
  | [] => []
  | i :: p => (if hd false removed then None else Some (rename color i))
              :: target color p (tl removed)
  end.

(* the simulation relation: every register of L holds in the physical file, at its colour,
   the value it holds in the virtual file *)
Definition agree (color : reg -> reg) (L : list reg) (vrf prf : regfile) : Prop :=
  forall v, In v L -> prf (color v) = vrf v.
