(* Spec/RV32Decode.v — C08 reference: an RV32I/M base-instruction decoder written from the
   RISC-V Unprivileged ISA manual (chapter 2 instruction formats R/I/S/B/U/J, chapter 24 opcode
   listings; M extension).  Independent of ppci: no ppci structure, only instruction words.
   Operands are returned in assembly-syntax order:
     R   mn rd, rs1, rs2        I-arith  mn rd, rs1, imm       shifts  mn rd, rs1, shamt
     loads  mn rd, imm(rs1)     stores   mn rs2, imm(rs1)      branches mn rs1, rs2, offset
     lui/auipc mn rd, imm20     jal rd, offset                 jalr rd, rs1, imm *)
From Coq Require Import ZArith List String.
Import ListNotations.
Open Scope string_scope.
Open Scope Z_scope.

Definition bits (w lo n : Z) : Z := (w / 2 ^ lo) mod 2 ^ n.          (* inst[lo+n-1 : lo] *)
Definition sext (n v : Z) : Z := if v <? 2 ^ (n - 1) then v else v - 2 ^ n.

Definition word_of_bytes (b : list Z) : option Z :=                   (* little-endian 32-bit parcel *)
  match b with
  | [b0; b1; b2; b3] => Some (b0 + 256 * b1 + 65536 * b2 + 16777216 * b3)
  | _ => None
  end.

Definition decode_word (w : Z) : option (string * list Z) :=
  let opcode := bits w 0 7 in
  let rd := bits w 7 5 in
  let funct3 := bits w 12 3 in
  let rs1 := bits w 15 5 in
  let rs2 := bits w 20 5 in
  let funct7 := bits w 25 7 in
  let imm_i := sext 12 (bits w 20 12) in
  let imm_s := sext 12 (bits w 25 7 * 32 + bits w 7 5) in
  let imm_b := sext 13 (bits w 31 1 * 4096 + bits w 7 1 * 2048 + bits w 25 6 * 32 + bits w 8 4 * 2) in
  let imm_u := bits w 12 20 in
  let imm_j := sext 21 (bits w 31 1 * 1048576 + bits w 12 8 * 4096 + bits w 20 1 * 2048 + bits w 21 10 * 2) in
  match opcode with
  | 55 (* 0110111 LUI *) => Some ("lui", [rd; imm_u])
  | 23 (* 0010111 AUIPC *) => Some ("auipc", [rd; imm_u])
  | 111 (* 1101111 JAL *) => Some ("jal", [rd; imm_j])
  | 103 (* 1100111 JALR *) => if funct3 =? 0 then Some ("jalr", [rd; rs1; imm_i]) else None
  | 99 (* 1100011 BRANCH *) =>
      match funct3 with
      | 0 => Some ("beq", [rs1; rs2; imm_b]) | 1 => Some ("bne", [rs1; rs2; imm_b])
      | 4 => Some ("blt", [rs1; rs2; imm_b]) | 5 => Some ("bge", [rs1; rs2; imm_b])
      | 6 => Some ("bltu", [rs1; rs2; imm_b]) | 7 => Some ("bgeu", [rs1; rs2; imm_b])
      | _ => None
      end
  | 3 (* 0000011 LOAD *) =>
      match funct3 with
      | 0 => Some ("lb", [rd; imm_i; rs1]) | 1 => Some ("lh", [rd; imm_i; rs1])
      | 2 => Some ("lw", [rd; imm_i; rs1]) | 4 => Some ("lbu", [rd; imm_i; rs1])
      | 5 => Some ("lhu", [rd; imm_i; rs1]) | _ => None
      end
  | 35 (* 0100011 STORE *) =>
      match funct3 with
      | 0 => Some ("sb", [rs2; imm_s; rs1]) | 1 => Some ("sh", [rs2; imm_s; rs1])
      | 2 => Some ("sw", [rs2; imm_s; rs1]) | _ => None
      end
  | 19 (* 0010011 OP-IMM *) =>
      match funct3 with
      | 0 => Some ("addi", [rd; rs1; imm_i]) | 2 => Some ("slti", [rd; rs1; imm_i])
      | 3 => Some ("sltiu", [rd; rs1; imm_i]) | 4 => Some ("xori", [rd; rs1; imm_i])
      | 6 => Some ("ori", [rd; rs1; imm_i]) | 7 => Some ("andi", [rd; rs1; imm_i])
      | 1 => if funct7 =? 0 then Some ("slli", [rd; rs1; rs2]) else None
      | 5 => if funct7 =? 0 then Some ("srli", [rd; rs1; rs2])
             else if funct7 =? 32 then Some ("srai", [rd; rs1; rs2]) else None
      | _ => None
      end
  | 51 (* 0110011 OP *) =>
      match funct7, funct3 with
      | 0, 0 => Some ("add", [rd; rs1; rs2]) | 32, 0 => Some ("sub", [rd; rs1; rs2])
      | 0, 1 => Some ("sll", [rd; rs1; rs2]) | 0, 2 => Some ("slt", [rd; rs1; rs2])
      | 0, 3 => Some ("sltu", [rd; rs1; rs2]) | 0, 4 => Some ("xor", [rd; rs1; rs2])
      | 0, 5 => Some ("srl", [rd; rs1; rs2]) | 32, 5 => Some ("sra", [rd; rs1; rs2])
      | 0, 6 => Some ("or", [rd; rs1; rs2]) | 0, 7 => Some ("and", [rd; rs1; rs2])
      | 1, 0 => Some ("mul", [rd; rs1; rs2]) | 1, 1 => Some ("mulh", [rd; rs1; rs2])
      | 1, 2 => Some ("mulhsu", [rd; rs1; rs2]) | 1, 3 => Some ("mulhu", [rd; rs1; rs2])
      | 1, 4 => Some ("div", [rd; rs1; rs2]) | 1, 5 => Some ("divu", [rd; rs1; rs2])
      | 1, 6 => Some ("rem", [rd; rs1; rs2]) | 1, 7 => Some ("remu", [rd; rs1; rs2])
      | _, _ => None
      end
  | 115 (* 1110011 SYSTEM *) =>
      if w =? 115 then Some ("ecall", []) else if w =? 1048691 then Some ("ebreak", []) else None
  | _ => None
  end.

Definition decode (bytes : list Z) : option (string * list Z) :=
  match word_of_bytes bytes with
  | Some w => decode_word w
  | None => None
  end.

(* ---- what ppci's printed form means in base-ISA terms (assembler manual, chapter 25
        "RISC-V Assembly Programmer's Handbook": pseudo-instructions) ---- *)
Inductive vsel := VOp (i : nat) | VSext (n : Z) (i : nat) | VConst (c : Z).

Definition apply_vsel (ops : list Z) (s : vsel) : Z :=
  match s with
  | VOp i => nth i ops 0
  | VSext n i => sext n (nth i ops 0 mod 2 ^ n)
  | VConst c => c
  end.

Definition rv_expect (mn : string) (nops : nat) : option (string * list vsel) :=
  let R := [VOp 0; VOp 1; VOp 2] in
  let is x := String.eqb mn x in
  let any l := existsb is l in
  match nops with
  | 3%nat =>
      if any ["add"; "sub"; "sll"; "slt"; "sltu"; "xor"; "srl"; "sra"; "or"; "and"; "mul"; "mulh"; "mulhsu";
              "mulhu"; "div"; "divu"; "rem"; "remu"; "slli"; "srli"; "srai"] then Some (mn, R)
      else if any ["addi"; "slti"; "sltiu"; "xori"; "ori"; "andi"; "jalr"] then Some (mn, [VOp 0; VOp 1; VSext 12 2])
      else if any ["beq"; "bne"; "blt"; "bge"; "bltu"; "bgeu"] then Some (mn, R)
      else if is "bgt" then Some ("blt", [VOp 1; VOp 0; VOp 2])
      else if is "ble" then Some ("bge", [VOp 1; VOp 0; VOp 2])
      else if is "bgtu" then Some ("bltu", [VOp 1; VOp 0; VOp 2])
      else if is "bleu" then Some ("bgeu", [VOp 1; VOp 0; VOp 2])
      else if any ["sb"; "sh"; "sw"; "lb"; "lh"; "lw"; "lbu"; "lhu"] then Some (mn, [VOp 0; VSext 12 1; VOp 2])
      else None
  | 2%nat =>
      if is "addi" then Some ("addi", [VOp 0; VOp 0; VConst 0])
      else if any ["lui"; "auipc"; "jal"] then Some (mn, [VOp 0; VOp 1])
      else if is "mv" then Some ("addi", [VOp 0; VOp 1; VConst 0])
      else None
  | 1%nat => if is "j" then Some ("jal", [VConst 0; VOp 0]) else None
  | 0%nat =>
      if is "nop" then Some ("addi", [VConst 0; VConst 0; VConst 0])
      else if any ["ebreak"; "ecall"] then Some (mn, [])
      else None
  | _ => None
  end.
