(* Spec/IRArith.v — run-time meaning of ppci IR integer arithmetic (independent of ppci's code).

   Integer types i8..i64 / u8..u64 are a width and a signedness; a value of the type is an
   integer in its range.  + - * wrap around (two's complement); / and % truncate toward zero
   and are undefined for a zero divisor and for signed MIN / -1; shifts are defined for
   0 <= n < bits (arithmetic >> for signed, logical for unsigned); & | ^ are bitwise on the
   two's-complement representation; integer casts wrap to the destination type.
   [None] = the operation has no defined result on these operands. *)
From Coq Require Import ZArith Bool.
Open Scope Z_scope.

Record ity := ITy { bits : Z; signed : bool }.

Definition lo (t : ity) : Z := if signed t then - 2 ^ (bits t - 1) else 0.
Definition hi (t : ity) : Z := if signed t then 2 ^ (bits t - 1) else 2 ^ bits t.   (* exclusive *)
Definition in_range (t : ity) (v : Z) : Prop := lo t <= v < hi t.
Definition in_rangeb (t : ity) (v : Z) : bool := (lo t <=? v) && (v <? hi t).

(* the representative of v modulo 2^bits that lies in the range of t *)
Definition wrap (t : ity) (v : Z) : Z :=
  let m := v mod 2 ^ bits t in
  if signed t && (2 ^ (bits t - 1) <=? m) then m - 2 ^ bits t else m.

Inductive binop := Add | Sub | Mul | Div | Rem | Or | And | Xor | Shl | Shr.

Definition div_defined (t : ity) (a b : Z) : bool :=
  negb (b =? 0) && negb (signed t && (a =? lo t) && (b =? -1)).

Definition eval_binop (op : binop) (t : ity) (a b : Z) : option Z :=
  match op with
  | Add => Some (wrap t (a + b))
  | Sub => Some (wrap t (a - b))
  | Mul => Some (wrap t (a * b))
  | Div => if div_defined t a b then Some (Z.quot a b) else None
  | Rem => if div_defined t a b then Some (Z.rem a b) else None
  | Or  => Some (Z.lor a b)
  | And => Some (Z.land a b)
  | Xor => Some (Z.lxor a b)
  | Shl => if (0 <=? b) && (b <? bits t) then Some (wrap t (a * 2 ^ b)) else None
  | Shr => if (0 <=? b) && (b <? bits t) then Some (a / 2 ^ b) else None
  end.

(* int -> int conversion *)
Definition eval_cast (to : ity) (v : Z) : Z := wrap to v.

(* the eight built-in integer types *)
Definition i8 := ITy 8 true.   Definition u8 := ITy 8 false.
Definition i16 := ITy 16 true. Definition u16 := ITy 16 false.
Definition i32 := ITy 32 true. Definition u32 := ITy 32 false.
Definition i64 := ITy 64 true. Definition u64 := ITy 64 false.
