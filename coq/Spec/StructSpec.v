(* Spec/StructSpec.v — control-flow graphs, structured control shapes and their semantics (C23).

   Independent of ppci's algorithms: only the *shape classes* of ppci/graph/relooper.py are
   mirrored (None / BasicShape / SequenceShape / IfShape / LoopShape / BreakShape level /
   ContinueShape level), with the meaning that ppci/wasm/ppci2wasm.py:do_shape gives them when
   it emits wasm:
     BasicShape b      the code of block b; if b ends in return/exit the function returns
     SequenceShape l   the sub-shapes in order (None entries are skipped)
     IfShape b y n     the code of b (ends in a conditional jump), then  if <cond> y else n end
     LoopShape body    block (loop body end) end : falling out of body leaves the loop
     BreakShape k      br to the end of the k-th enclosing loop (k = 0 innermost)
     ContinueShape k   br to the start of the k-th enclosing loop
   Blocks are numbered 0..n-1, block 0 is the entry.  A run is observed as the list of blocks
   visited, most recent first.  Branch decisions come from an oracle that sees the whole
   history, so that both semantics can be run "under the same decisions". *)
From Coq Require Import List Bool Arith.
Import ListNotations.

Definition node := nat.
Inductive term := TRet | TJmp (t : node) | TBr (yes no : node).
Definition cfg := list term.
Definition term_of (g : cfg) (b : node) : option term := nth_error g b.

Definition hist := list node.
Definition oracle := hist -> bool.      (* history including the branching block; true = yes *)

(* ---- positions of the CFG machine *)
Inductive tgt := TNode (n : node) | THalt | TEnd | TBad.

(* one block of CFG execution *)
Definition cfg_step (g : cfg) (o : oracle) (p : tgt) (h : hist) : option (hist * tgt) :=
  match p with
  | TNode n =>
      match term_of g n with
      | Some TRet => Some (n :: h, THalt)
      | Some (TJmp t) => Some (n :: h, TNode t)
      | Some (TBr y no) => Some (n :: h, TNode (if o (n :: h) then y else no))
      | None => None
      end
  | _ => None
  end.

(* k blocks (fewer if the run halts or is stuck) *)
Fixpoint cfg_run (g : cfg) (o : oracle) (k : nat) (p : tgt) (h : hist) : hist * tgt :=
  match k with
  | O => (h, p)
  | S k' => match cfg_step g o p h with
            | Some (h1, p1) => cfg_run g o k' p1 h1
            | None => (h, p)
            end
  end.

(* ---- shapes *)
Inductive shape :=
| SNone
| SBasic (b : node)
| SSeq (l : list shape)
| SIf (b : node) (yes no : shape)
| SLoop (body : shape)
| SBreak (level : nat)
| SContinue (level : nat).

Inductive res :=
| RNormal (h : hist)            (* fell out of the shape *)
| RBreak (k : nat) (h : hist)
| RCont (k : nat) (h : hist)
| RHalt (h : hist)              (* the function returned *)
| RFuel (h : hist)
| RStuck (h : hist).            (* ill-formed: unknown block, `if` on a block without a condition *)

Definition rhist (r : res) : hist :=
  match r with
  | RNormal h | RBreak _ h | RCont _ h | RHalt h | RFuel h | RStuck h => h
  end.

Definition seq_run (ex : shape -> hist -> res) : list shape -> hist -> res :=
  fix sr (l : list shape) (h : hist) {struct l} : res :=
    match l with
    | [] => RNormal h
    | s :: r => match ex s h with RNormal h1 => sr r h1 | x => x end
    end.

(* fuel = number of loop re-entries (continue) still allowed *)
Fixpoint exec (g : cfg) (o : oracle) (fuel : nat) : shape -> hist -> res :=
  match fuel with
  | O => fun _ h => RFuel h
  | S f =>
      fix go (s : shape) {struct s} : hist -> res :=
        match s with
        | SNone => fun h => RNormal h
        | SBasic b => fun h =>
                      match term_of g b with
                      | Some TRet => RHalt (b :: h)
                      | Some _ => RNormal (b :: h)
                      | None => RStuck h
                      end
        | SSeq l => fun h => seq_run go l h
        | SIf b y n => fun h =>
                       match term_of g b with
                       | Some (TBr _ _) => if o (b :: h) then go y (b :: h) else go n (b :: h)
                       | _ => RStuck h
                       end
        | SLoop body => fun h =>
            match go body h with
            | RNormal h1 => RNormal h1
            | RBreak O h1 => RNormal h1
            | RBreak (S k) h1 => RBreak k h1
            | RCont O h1 => exec g o f (SLoop body) h1
            | RCont (S k) h1 => RCont k h1
            | x => x
            end
        | SBreak k => fun h => RBreak k h
        | SContinue k => fun h => RCont k h
        end
  end.

(* trace equivalence, as a predicate on one run: the structured program either returns having
   visited exactly the complete CFG path, or runs out of fuel having visited a CFG path prefix of
   at least [fuel] blocks; nothing else may happen *)
Definition agrees (g : cfg) (o : oracle) (s : shape) (fuel : nat) : Prop :=
  exists k, match exec g o fuel s [] with
            | RHalt h => cfg_run g o k (TNode 0) [] = (h, THalt)
            | RFuel h => (exists p, cfg_run g o k (TNode 0) [] = (h, p)) /\ fuel <= length h
            | _ => False
            end.
