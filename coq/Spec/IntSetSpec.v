(* Spec/IntSetSpec.v — mathematical reading of a list of integer ranges (C33), independent of ppci.
   A range (a, b) stands for the closed interval a..b (empty when a > b); a list of ranges denotes
   the union of its intervals. *)
From Coq Require Import ZArith List Sorted.
Import ListNotations.
Open Scope Z_scope.

Definition range := (Z * Z)%type.

Definition in_range (r : range) (z : Z) : Prop := fst r <= z <= snd r.

(* the set of integers denoted by a list of ranges *)
Definition denote (rs : list range) (z : Z) : Prop := exists r, In r rs /\ in_range r z.

(* canonical form: every range non-empty, ascending, and the next range starts after a gap of at
   least one integer (next.a > prev.b + 1): sorted, non-overlapping, non-adjacent *)
Fixpoint canonical (rs : list range) : Prop :=
  match rs with
  | [] => True
  | r :: t => fst r <= snd r
              /\ match t with [] => True | s :: _ => snd r + 1 < fst s end
              /\ canonical t
  end.

(* l lists the members of S in strictly ascending order, each exactly once *)
Definition enumerates (l : list Z) (S : Z -> Prop) : Prop :=
  StronglySorted Z.lt l /\ forall z, In z l <-> S z.

(* S is finite with exactly n members *)
Definition has_card (S : Z -> Prop) (n : Z) : Prop :=
  exists l, NoDup l /\ (forall z, In z l <-> S z) /\ n = Z.of_nat (length l).
